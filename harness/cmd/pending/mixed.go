package main

// Concurrent scenarios of part (ii) on ONE connection of each real client, against real servers whose handlers are gated
// (they all finish at the same instant):
//   mixed  — different operations (CallTool, GetPrompt, ReadResource gated; ListTools, ListPrompts, ListResources while the
//            gated ones are in flight): every call gets its own answer; the ids of all requests one client puts on the wire
//            are pairwise distinct;
//   burst  — several calls with answers of 4–20 KiB released together: every call gets its own answer, every byte of it;
//            raw-peer census on the legacy SSE stream: exactly one event per request id;
//   chatty — calls whose handler issues roots/list to the client and sends notifications, concurrently with plain calls
//            (stdio: through a writer that yields after every Write): every call gets its own answer.

import (
	"context"
	"encoding/json"
	"fmt"
	"io"
	"math"
	"net/http"
	"net/http/httptest"
	"runtime"
	"sort"
	"strings"
	"sync"
	"time"

	"verif/harness/hk"

	mcp "trpc.group/trpc-go/trpc-mcp-go"
)

// gates: handlers whose nonce / uri names a gate wait until the gate is released; the tool "release" waits until the wanted
// number of gated handlers has arrived and then lets all of them go at once.
type gates struct {
	mu      sync.Mutex
	ch      map[string]chan struct{}
	arrived map[string]int
	changed chan struct{}
}

func newGates() *gates {
	return &gates{ch: map[string]chan struct{}{}, arrived: map[string]int{}, changed: make(chan struct{}, 1024)}
}

func (g *gates) gate(name string) chan struct{} {
	g.mu.Lock()
	defer g.mu.Unlock()
	if g.ch[name] == nil {
		g.ch[name] = make(chan struct{})
	}
	return g.ch[name]
}

func gateOf(s string) string {
	i := strings.Index(s, "~gate:")
	if i < 0 {
		return ""
	}
	rest := s[i+len("~gate:"):]
	if j := strings.IndexByte(rest, '~'); j >= 0 {
		rest = rest[:j]
	}
	return rest
}

// wait blocks the calling handler on the gate named in s (if any).
func (g *gates) wait(s string) {
	name := gateOf(s)
	if name == "" {
		return
	}
	ch := g.gate(name)
	g.mu.Lock()
	g.arrived[name]++
	g.mu.Unlock()
	select {
	case g.changed <- struct{}{}:
	default:
	}
	select {
	case <-ch:
	case <-time.After(ceiling):
	}
}

// release waits until `want` handlers wait on the gate, then opens it.
func (g *gates) release(name string, want int) int {
	deadline := time.Now().Add(ceiling - time.Second)
	for {
		g.mu.Lock()
		n := g.arrived[name]
		g.mu.Unlock()
		if n >= want || time.Now().After(deadline) {
			ch := g.gate(name)
			g.mu.Lock()
			select {
			case <-ch:
			default:
				close(ch)
			}
			g.mu.Unlock()
			return n
		}
		select {
		case <-g.changed:
		case <-time.After(5 * time.Millisecond):
		}
	}
}

type rootsLister interface {
	ListRoots(ctx context.Context) (*mcp.ListRootsResult, error)
}

const resourceURIs = 3

// vocabText: a text payload full of JSON-RPC vocabulary (the client must treat it as data).
func vocabText(n string) string {
	return fmt.Sprintf(`{"jsonrpc":"2.0","method":"notifications/message","id":1,"params":{"method":%q},"result":{"method":"x"},"error":{"code":-32603,"message":"method"}} "method": "id": %s`, n, n)
}

// richRegister puts the scenario handlers on a real server of any kind.
func richRegister(srv any, g *gates, hc *handlerCount) {
	lister, _ := srv.(rootsLister)
	echo := func(ctx context.Context, req *mcp.CallToolRequest) (*mcp.CallToolResult, error) {
		n, _ := req.Params.Arguments["nonce"].(string)
		hc.hit(n)
		g.wait(n)
		return mcp.NewTextResult(expectText(n)), nil
	}
	release := func(ctx context.Context, req *mcp.CallToolRequest) (*mcp.CallToolResult, error) {
		name, _ := req.Params.Arguments["gate"].(string)
		want, _ := req.Params.Arguments["want"].(float64)
		return mcp.NewTextResult(fmt.Sprintf("released:%d", g.release(name, int(want)))), nil
	}
	chatty := func(ctx context.Context, req *mcp.CallToolRequest) (*mcp.CallToolResult, error) {
		n, _ := req.Params.Arguments["nonce"].(string)
		hc.hit(n)
		if sess, ok := mcp.GetSessionFromContext(ctx); ok {
			// stdio: a notification through the session's outgoing queue
			if ns, ok := sess.(interface {
				NotificationChannel() chan<- mcp.JSONRPCNotification
			}); ok {
				select {
				case ns.NotificationChannel() <- *mcp.NewJSONRPCNotificationFromMap("notifications/message", map[string]interface{}{"level": "info", "data": n}):
				default:
				}
			}
		}
		g.wait(n)
		if lister != nil {
			cctx, cancel := context.WithTimeout(ctx, ceiling)
			res, err := lister.ListRoots(cctx)
			cancel()
			if err != nil {
				return mcp.NewTextResult("roots-error:" + err.Error()), nil
			}
			if len(res.Roots) != 1 || res.Roots[0].Name != "verif-roots" {
				return mcp.NewTextResult(fmt.Sprintf("roots-wrong:%v", res.Roots)), nil
			}
		}
		return mcp.NewTextResult(expectText(n)), nil
	}
	prompt := func(ctx context.Context, req *mcp.GetPromptRequest) (*mcp.GetPromptResult, error) {
		n := req.Params.Arguments["nonce"]
		hc.hit(n)
		g.wait(n)
		return &mcp.GetPromptResult{Messages: []mcp.PromptMessage{{Role: mcp.RoleUser, Content: mcp.NewTextContent("prompt:" + n)}}}, nil
	}
	resource := func(ctx context.Context, req *mcp.ReadResourceRequest) (mcp.ResourceContents, error) {
		hc.hit(req.Params.URI)
		g.wait("~gate:mix")
		return mcp.TextResourceContents{URI: req.Params.URI, MIMEType: "text/plain", Text: "res:" + req.Params.URI}, nil
	}
	// JSON-RPC vocabulary as keys and values of a result, at several depths, and as property names of a tool's schema
	vocabulary := func(ctx context.Context, req *mcp.CallToolRequest) (*mcp.CallToolResult, error) {
		n, _ := req.Params.Arguments["nonce"].(string)
		hc.hit(n)
		return &mcp.CallToolResult{
			Content: []mcp.Content{mcp.NewTextContent(vocabText(n))},
			StructuredContent: map[string]interface{}{
				"method": "notifications/message", "id": 7, "jsonrpc": "2.0", "params": map[string]interface{}{"method": n, "id": "x"},
				"result": map[string]interface{}{"error": map[string]interface{}{"code": -32000, "message": "method"}, "method": []interface{}{"method", map[string]interface{}{"method": n}}},
				"error":  nil,
			},
		}, nil
	}
	tVocab := mcp.NewTool("vocabulary", mcp.WithString("nonce"), mcp.WithString("method"), mcp.WithString("id"), mcp.WithString("jsonrpc"),
		mcp.WithString("params"), mcp.WithString("result"), mcp.WithString("error"))
	// handler outcomes of every kind
	outcome := func(ctx context.Context, req *mcp.CallToolRequest) (*mcp.CallToolResult, error) {
		n, _ := req.Params.Arguments["nonce"].(string)
		kind, _ := req.Params.Arguments["kind"].(string)
		hc.hit(n)
		switch kind {
		case "goerr":
			return nil, fmt.Errorf("handler failed for %s", n)
		case "iserror":
			r := mcp.NewTextResult("tool-level error for " + n)
			r.IsError = true
			return r, nil
		case "nan":
			return &mcp.CallToolResult{Content: []mcp.Content{mcp.NewTextContent(n)}, StructuredContent: map[string]interface{}{"x": math.NaN()}}, nil
		case "inf":
			return &mcp.CallToolResult{Content: []mcp.Content{mcp.NewTextContent(n)}, StructuredContent: []float64{math.Inf(1)}}, nil
		case "chan":
			return &mcp.CallToolResult{Content: []mcp.Content{mcp.NewTextContent(n)}, StructuredContent: make(chan int)}, nil
		case "nil":
			return nil, nil
		case "nilslices":
			return &mcp.CallToolResult{}, nil
		}
		return mcp.NewTextResult(expectText(n)), nil
	}
	tOutcome := mcp.NewTool("outcome", mcp.WithString("nonce"), mcp.WithString("kind"))
	tEcho := mcp.NewTool("echo", mcp.WithString("nonce"))
	tRel := mcp.NewTool("release", mcp.WithString("gate"), mcp.WithNumber("want"))
	tChat := mcp.NewTool("chatty", mcp.WithString("nonce"))
	p := &mcp.Prompt{Name: "p", Arguments: []mcp.PromptArgument{{Name: "nonce"}}}
	switch s := srv.(type) {
	case *mcp.Server:
		s.RegisterTool(tEcho, echo)
		s.RegisterTool(tRel, release)
		s.RegisterTool(tChat, chatty)
		s.RegisterTool(tVocab, vocabulary)
		s.RegisterTool(tOutcome, outcome)
		s.RegisterPrompt(p, prompt)
		for i := 0; i < resourceURIs; i++ {
			s.RegisterResource(&mcp.Resource{Name: fmt.Sprintf("r%d", i), URI: fmt.Sprintf("verif://r%d", i)}, resource)
		}
	case *mcp.SSEServer:
		s.RegisterTool(tEcho, echo)
		s.RegisterTool(tRel, release)
		s.RegisterTool(tChat, chatty)
		s.RegisterTool(tVocab, vocabulary)
		s.RegisterTool(tOutcome, outcome)
		s.RegisterPrompt(p, prompt)
		for i := 0; i < resourceURIs; i++ {
			s.RegisterResource(&mcp.Resource{Name: fmt.Sprintf("r%d", i), URI: fmt.Sprintf("verif://r%d", i)}, resource)
		}
	case *mcp.StdioServer:
		s.RegisterTool(tEcho, echo)
		s.RegisterTool(tRel, release)
		s.RegisterTool(tChat, chatty)
		s.RegisterTool(tVocab, vocabulary)
		s.RegisterTool(tOutcome, outcome)
		s.RegisterPrompt(p, prompt)
		for i := 0; i < resourceURIs; i++ {
			s.RegisterResource(&mcp.Resource{Name: fmt.Sprintf("r%d", i), URI: fmt.Sprintf("verif://r%d", i)}, resource)
		}
	}
}

// allOps is what both client types offer.
type allOps interface {
	CallTool(ctx context.Context, req *mcp.CallToolRequest) (*mcp.CallToolResult, error)
	ListTools(ctx context.Context, req *mcp.ListToolsRequest) (*mcp.ListToolsResult, error)
	ListPrompts(ctx context.Context, req *mcp.ListPromptsRequest) (*mcp.ListPromptsResult, error)
	GetPrompt(ctx context.Context, req *mcp.GetPromptRequest) (*mcp.GetPromptResult, error)
	ListResources(ctx context.Context, req *mcp.ListResourcesRequest) (*mcp.ListResourcesResult, error)
	ReadResource(ctx context.Context, req *mcp.ReadResourceRequest) (*mcp.ReadResourceResult, error)
}

type staticRoots struct{}

func (staticRoots) GetRoots() []mcp.Root {
	return []mcp.Root{{URI: "file:///verif-roots", Name: "verif-roots"}}
}

// idLog notes the raw id of every request one client puts on the wire.
type idLog struct {
	mu  sync.Mutex
	ids []string
}

func (l *idLog) note(b []byte) {
	var m struct {
		ID     json.RawMessage `json:"id"`
		Method string          `json:"method"`
	}
	if json.Unmarshal(b, &m) == nil && m.Method != "" && len(m.ID) > 0 && string(m.ID) != "null" {
		l.mu.Lock()
		l.ids = append(l.ids, string(m.ID))
		l.mu.Unlock()
	}
}

func (l *idLog) duplicates() []string {
	l.mu.Lock()
	defer l.mu.Unlock()
	seen := map[string]int{}
	for _, id := range l.ids {
		seen[id]++
	}
	var out []string
	for id, n := range seen {
		if n > 1 {
			out = append(out, fmt.Sprintf("%s x%d", id, n))
		}
	}
	sort.Strings(out)
	return out
}

func notingIDs(l *idLog, h http.Handler) http.Handler {
	return http.HandlerFunc(func(rw http.ResponseWriter, r *http.Request) {
		if r.Method == http.MethodPost {
			b, _ := io.ReadAll(r.Body)
			r.Body.Close()
			l.note(b)
			r.Body = io.NopCloser(strings.NewReader(string(b)))
		}
		h.ServeHTTP(rw, r)
	})
}

// yieldWriter hands every Write on and then yields: widens the window between the Write calls of one frame.
type yieldWriter struct{ w io.Writer }

func (y yieldWriter) Write(p []byte) (int, error) {
	n, err := y.w.Write(p)
	runtime.Gosched()
	time.Sleep(30 * time.Microsecond)
	runtime.Gosched()
	return n, err
}

// teeLinesWriter notes every request line the client writes to the server's stdin.
type teeLinesWriter struct {
	w   io.WriteCloser
	l   *idLog
	buf []byte
}

func (t *teeLinesWriter) Write(p []byte) (int, error) {
	t.buf = append(t.buf, p...)
	for {
		i := strings.IndexByte(string(t.buf), '\n')
		if i < 0 {
			break
		}
		t.l.note(t.buf[:i])
		t.buf = t.buf[i+1:]
	}
	return t.w.Write(p)
}
func (t *teeLinesWriter) Close() error { return t.w.Close() }

// richKit: one real client (with a roots provider) connected to one real server carrying the scenario handlers.
type richKit struct {
	transport string
	cl        allOps
	g         *gates
	hc        *handlerCount
	ids       *idLog
	left      func() int
	close     func()
}

func newRichKit(c *hk.Ctx, transport string) *richKit {
	g := newGates()
	hc := &handlerCount{}
	ids := &idLog{}
	info := mcp.Implementation{Name: "verif-client", Version: "1"}
	fail := func(err error) *richKit {
		degraded.Store(true)
		c.Violate(hk.Violation{Fingerprint: "pending:harness:initialize:" + transport + "-rich", What: err.Error()})
		return nil
	}
	switch transport {
	case "stream-json", "stream-sse":
		cfg := hk.SrvCfg{Mode: "stateful", Get: true, PostSSE: transport == "stream-sse"}
		srv := mcp.NewServer("verif-server", "1.0", cfg.Opts()...)
		richRegister(srv, g, hc)
		ts := httptest.NewUnstartedServer(notingIDs(ids, srv.Handler()))
		ts.Config.ErrorLog = hk.QuietStdLog()
		ts.Start()
		cl, err := mcp.NewClient(ts.URL+"/mcp", info, mcp.WithClientLogger(hk.QuietLogger{}))
		if err == nil {
			cl.SetRootsProvider(staticRoots{})
			ictx, icancel := context.WithTimeout(context.Background(), callCeiling())
			_, err = cl.Initialize(ictx, &mcp.InitializeRequest{})
			icancel()
		}
		if err != nil {
			ts.Close()
			return fail(err)
		}
		// the listening stream (server requests travel on it) is opened asynchronously after Initialize
		sid := cl.GetSessionID()
		deadline := time.Now().Add(callCeiling())
		for !mcp.VerifHasGetStream(srv, sid) && time.Now().Before(deadline) {
			time.Sleep(time.Millisecond)
		}
		return &richKit{transport, cl, g, hc, ids, func() int { return mcp.VerifPendingClientRequests(cl) }, func() { cl.Close(); ts.CloseClientConnections(); ts.Close() }}
	case "legacy":
		srv := mcp.NewSSEServer("verif-sse", "1.0", mcp.WithSSEServerLogger(hk.QuietLogger{}), mcp.WithKeepAlive(false))
		richRegister(srv, g, hc)
		ts := httptest.NewUnstartedServer(notingIDs(ids, srv))
		ts.Config.ErrorLog = hk.QuietStdLog()
		ts.Start()
		cl, err := mcp.NewSSEClient(ts.URL+srv.SSEPath(), info, mcp.WithClientLogger(hk.QuietLogger{}))
		if err == nil {
			cl.SetRootsProvider(staticRoots{})
			ictx, icancel := context.WithTimeout(context.Background(), callCeiling())
			_, err = cl.Initialize(ictx, &mcp.InitializeRequest{})
			icancel()
		}
		if err != nil {
			ts.CloseClientConnections()
			ts.Close()
			return fail(err)
		}
		return &richKit{transport, cl, g, hc, ids, func() int { return mcp.VerifPendingClientRequests(cl) }, func() { cl.Close(); ts.CloseClientConnections(); ts.Close() }}
	case "stdio":
		// real StdioServer and real StdioClient in one process, joined by two pipes; the server's stdout yields after every Write
		srv := mcp.NewStdioServer("verif-stdio", "1.0", mcp.WithStdioServerLogger(hk.QuietLogger{}))
		richRegister(srv, g, hc)
		inR, inW := io.Pipe()   // client -> server
		outR, outW := io.Pipe() // server -> client
		ctx, cancel := context.WithCancel(context.Background())
		go func() { mcp.VerifServeStdio(ctx, srv, inR, yieldWriter{outW}); outW.Close() }()
		sc, err := mcp.VerifNewStdioClientOnPipes(info, 3*time.Second, &teeLinesWriter{w: inW, l: ids}, outR, mcp.WithStdioLogger(hk.QuietLogger{}))
		if err == nil {
			sc.SetRootsProvider(staticRoots{})
			ictx, icancel := context.WithTimeout(context.Background(), callCeiling())
			_, err = sc.Initialize(ictx, &mcp.InitializeRequest{})
			icancel()
		}
		if err != nil {
			cancel()
			inW.Close()
			return fail(err)
		}
		return &richKit{transport, sc, g, hc, ids, func() int { return mcp.VerifPendingClientRequests(sc) }, func() { go sc.Close(); cancel(); inW.Close(); outW.Close() }}
	}
	return nil
}

type opRes struct {
	what string
	want string
	got  string
	err  string
}

func (k *richKit) tool(name, nonce string) opRes {
	ctx, cancel := context.WithTimeout(context.Background(), callCeiling())
	defer cancel()
	r, err := k.cl.CallTool(ctx, &mcp.CallToolRequest{Params: mcp.CallToolParams{Name: name, Arguments: map[string]interface{}{"nonce": nonce}}})
	res := opRes{what: name + " " + clip(nonce), want: expectText(nonce), got: textOf(r)}
	if err != nil {
		res.err = err.Error()
		if ctx.Err() == context.DeadlineExceeded {
			degraded.Store(true)
		}
	}
	return res
}

// vocab calls the tool whose result is full of JSON-RPC vocabulary.
func (k *richKit) vocab(nonce string) opRes {
	ctx, cancel := context.WithTimeout(context.Background(), callCeiling())
	defer cancel()
	r, err := k.cl.CallTool(ctx, &mcp.CallToolRequest{Params: mcp.CallToolParams{Name: "vocabulary", Arguments: map[string]interface{}{"nonce": nonce, "method": "tools/call", "id": "9", "jsonrpc": "2.0"}}})
	res := opRes{what: "vocabulary " + nonce, want: vocabText(nonce), got: textOf(r)}
	if err != nil {
		res.err = err.Error()
	} else if sc, ok := r.StructuredContent.(map[string]interface{}); !ok || sc["method"] != "notifications/message" {
		res.got = fmt.Sprintf("structuredContent lost or changed: %v", r.StructuredContent)
	}
	return res
}

func (k *richKit) releaseGate(name string, want int) opRes {
	ctx, cancel := context.WithTimeout(context.Background(), callCeiling())
	defer cancel()
	r, err := k.cl.CallTool(ctx, &mcp.CallToolRequest{Params: mcp.CallToolParams{Name: "release", Arguments: map[string]interface{}{"gate": name, "want": want}}})
	res := opRes{what: "release " + name, want: fmt.Sprintf("released:%d", want), got: textOf(r)}
	if err != nil {
		res.err = err.Error()
	}
	return res
}

func (k *richKit) prompt(nonce string) opRes {
	ctx, cancel := context.WithTimeout(context.Background(), callCeiling())
	defer cancel()
	req := &mcp.GetPromptRequest{}
	req.Params.Name = "p"
	req.Params.Arguments = map[string]string{"nonce": nonce}
	r, err := k.cl.GetPrompt(ctx, req)
	res := opRes{what: "prompts/get " + nonce, want: "prompt:" + nonce}
	if err != nil {
		res.err = err.Error()
	} else if r != nil && len(r.Messages) == 1 {
		if t, ok := r.Messages[0].Content.(mcp.TextContent); ok {
			res.got = t.Text
		} else if tp, ok := r.Messages[0].Content.(*mcp.TextContent); ok {
			res.got = tp.Text
		} else {
			res.got = fmt.Sprintf("%T", r.Messages[0].Content)
		}
	}
	return res
}

func (k *richKit) resource(i int) opRes {
	ctx, cancel := context.WithTimeout(context.Background(), callCeiling())
	defer cancel()
	uri := fmt.Sprintf("verif://r%d", i)
	req := &mcp.ReadResourceRequest{}
	req.Params.URI = uri
	r, err := k.cl.ReadResource(ctx, req)
	res := opRes{what: "resources/read " + uri, want: "res:" + uri}
	if err != nil {
		res.err = err.Error()
	} else if r != nil && len(r.Contents) == 1 {
		switch t := r.Contents[0].(type) {
		case mcp.TextResourceContents:
			res.got = t.Text
		case *mcp.TextResourceContents:
			res.got = t.Text
		default:
			res.got = fmt.Sprintf("%T", r.Contents[0])
		}
	}
	return res
}

func (k *richKit) list(kind string) opRes {
	ctx, cancel := context.WithTimeout(context.Background(), callCeiling())
	defer cancel()
	res := opRes{what: kind + "/list"}
	var names []string
	var err error
	switch kind {
	case "tools":
		var r *mcp.ListToolsResult
		r, err = k.cl.ListTools(ctx, &mcp.ListToolsRequest{})
		if r != nil {
			for _, t := range r.Tools {
				names = append(names, t.Name)
			}
		}
		res.want = "chatty,echo,outcome,release,vocabulary"
	case "prompts":
		var r *mcp.ListPromptsResult
		r, err = k.cl.ListPrompts(ctx, &mcp.ListPromptsRequest{})
		if r != nil {
			for _, t := range r.Prompts {
				names = append(names, t.Name)
			}
		}
		res.want = "p"
	case "resources":
		var r *mcp.ListResourcesResult
		r, err = k.cl.ListResources(ctx, &mcp.ListResourcesRequest{})
		if r != nil {
			for _, t := range r.Resources {
				names = append(names, t.Name)
			}
		}
		res.want = "r0,r1,r2"
	}
	sort.Strings(names)
	res.got = strings.Join(names, ",")
	if err != nil {
		res.err = err.Error()
	}
	return res
}

// verdicts reports the calls that did not get their own answer.
func (k *richKit) verdicts(c *hk.Ctx, scenario string, rs []opRes, input map[string]any) {
	for _, r := range rs {
		c.Count(scenario+"-"+k.transport+"-"+r.what, true, nil, scenario+"-"+k.transport)
		if r.err == "" && r.got == r.want {
			continue
		}
		fp, what := "pending:foreign-answer:"+k.transport+"-"+scenario, "a call returned something else than the answer computed from its own arguments"
		if r.err != "" {
			fp, what = "pending:no-answer:"+k.transport+"-"+scenario, "a call got nothing although the server handled it once and the connection is up"
		}
		in := map[string]any{"transport": k.transport, "scenario": scenario, "call": r.what}
		for a, b := range input {
			in[a] = b
		}
		c.Violate(hk.Violation{Fingerprint: fp, What: what, Input: in, Observed: map[string]any{"error": r.err, "got": clip(r.got)}, Expected: clip(r.want)})
	}
	if d := k.ids.duplicates(); len(d) > 0 {
		c.Violate(hk.Violation{Fingerprint: "pending:request-ids-not-distinct:" + k.transport,
			What:  "one client put two requests with the same id on the wire (two id counters feed one pending table): the later registration overwrites the earlier call's channel",
			Input: map[string]any{"transport": k.transport, "scenario": scenario}, Observed: map[string]any{"ids_used_more_than_once": d}})
	}
	if n := k.left(); n != 0 {
		c.Violate(hk.Violation{Fingerprint: "pending:table-not-empty:" + k.transport, What: "entries left in the client's pending table after every call returned", Input: scenario, Observed: n})
	}
	k.hc.mu.Lock()
	for n, cnt := range k.hc.n {
		if cnt != 1 {
			c.Violate(hk.Violation{Fingerprint: "pending:handler-count:" + k.transport + "-" + scenario, What: "a handler did not run exactly once for a request (no retry configured)", Input: clip(n), Observed: cnt, Expected: 1})
		}
	}
	k.hc.mu.Unlock()
}

func collect(n int, fns ...func() opRes) []opRes {
	var mu sync.Mutex
	var wg sync.WaitGroup
	var out []opRes
	for _, f := range fns {
		wg.Add(1)
		go func(f func() opRes) {
			defer wg.Done()
			r := f()
			mu.Lock()
			out = append(out, r)
			mu.Unlock()
		}(f)
	}
	wg.Wait()
	return out
}

var richTransports = []string{"stream-json", "stream-sse", "legacy", "stdio"}

func runMixed(c *hk.Ctx) {
	for _, tr := range richTransports {
		k := newRichKit(c, tr)
		if k == nil {
			continue
		}
		// gated: three tool calls, two prompts, two resources; while they are in flight the list operations run
		var gated []func() opRes
		for i := 0; i < 3; i++ {
			n := fmt.Sprintf("m%d-%04x~gate:mix", i, c.Rng.Intn(1<<16))
			gated = append(gated, func() opRes { return k.tool("echo", n) })
		}
		for i := 0; i < 2; i++ {
			n := fmt.Sprintf("mp%d-%04x~gate:mix", i, c.Rng.Intn(1<<16))
			gated = append(gated, func() opRes { return k.prompt(n) })
		}
		for i := 0; i < 2; i++ {
			i := i
			gated = append(gated, func() opRes { return k.resource(i) })
		}
		done := make(chan []opRes, 1)
		go func() { done <- collect(0, gated...) }()
		// the list operations go out while the gated calls wait (the release waits until all seven have arrived)
		var rs []opRes
		for round := 0; round < 4; round++ {
			rs = append(rs, k.list("tools"), k.list("prompts"), k.list("resources"))
		}
		rel := k.releaseGate("mix", len(gated))
		rs = append(rs, rel)
		rs = append(rs, <-done...)
		rs = append(rs, k.list("tools"))
		for i := 0; i < 2; i++ {
			rs = append(rs, k.vocab(fmt.Sprintf("v%d-%04x", i, c.Rng.Intn(1<<16))))
		}
		k.verdicts(c, "mixed", rs, map[string]any{"in_flight_together": "3 tools/call + 2 prompts/get + 2 resources/read (gated), 12 list operations meanwhile"})
		k.close()
	}
}

func runBurstSizes(c *hk.Ctx) {
	sizes := []int{4 << 10, 9000, 12 << 10, 20 << 10, 6000, 16 << 10, 5000, 18000}
	for _, tr := range richTransports {
		k := newRichKit(c, tr)
		if k == nil {
			continue
		}
		var calls []func() opRes
		for i, sz := range sizes {
			n := fmt.Sprintf("b%d-%04x~gate:burst~%d", i, c.Rng.Intn(1<<16), sz)
			calls = append(calls, func() opRes { return k.tool("echo", n) })
		}
		done := make(chan []opRes, 1)
		go func() { done <- collect(0, calls...) }()
		rs := []opRes{k.releaseGate("burst", len(calls))}
		rs = append(rs, <-done...)
		k.verdicts(c, "burst", rs, map[string]any{"answers_released_together": sizes})
		k.close()
	}
	legacyBurstCensus(c, sizes)
}

// legacyBurstCensus: a raw peer posts the gated calls and the release on one legacy SSE session and counts the events per id.
func legacyBurstCensus(c *hk.Ctx, sizes []int) {
	g := newGates()
	hc := &handlerCount{}
	srv := mcp.NewSSEServer("verif-sse", "1.0", mcp.WithSSEServerLogger(hk.QuietLogger{}), mcp.WithKeepAlive(false))
	richRegister(srv, g, hc)
	ts := httptest.NewUnstartedServer(srv)
	ts.Config.ErrorLog = hk.QuietStdLog()
	ts.Start()
	defer func() { ts.CloseClientConnections(); ts.Close() }()
	f := &hk.Fixture{URL: ts.URL + srv.SSEPath(), HC: &http.Client{Transport: &http.Transport{MaxIdleConnsPerHost: 32}}, TS: ts}
	status, _, st, err := f.OpenStream(nil)
	if err != nil || status != 200 {
		return
	}
	defer st.CloseByClient()
	evs := st.WaitEvents(1, ceiling)
	if len(evs) == 0 {
		return
	}
	endpoint := evs[0].Data
	if strings.HasPrefix(endpoint, "/") {
		endpoint = ts.URL + endpoint
	}
	post := func(body string) {
		f.Do("POST", endpoint, map[string]string{"Content-Type": "application/json"}, []byte(body))
	}
	post(initBody)
	post(`{"jsonrpc":"2.0","method":"notifications/initialized"}`)
	var wg sync.WaitGroup
	for i, sz := range sizes {
		wg.Add(1)
		go func(i, sz int) {
			defer wg.Done()
			post(callBody(fmt.Sprint(100+i), fmt.Sprintf("rb%d~gate:burst~%d", i, sz)))
		}(i, sz)
	}
	wg.Wait()
	post(fmt.Sprintf(`{"jsonrpc":"2.0","id":99,"method":"tools/call","params":{"name":"release","arguments":{"gate":"burst","want":%d}}}`, len(sizes)))
	want := 2 + len(sizes) + 1 // endpoint, initialize answer, the answers, the release's answer
	all := st.WaitEvents(want, callCeiling())
	perID := map[string]int{}
	for _, e := range all {
		var a answer
		if json.Unmarshal([]byte(e.Data), &a) == nil && len(a.ID) > 0 {
			perID[string(a.ID)]++
		}
	}
	c.Count("burst-census-legacy", true, map[string]any{"kind": "burst-census", "events": len(all), "wanted": want}, "burst-census-legacy")
	for i := range sizes {
		id := fmt.Sprint(100 + i)
		if perID[id] != 1 {
			c.Violate(hk.Violation{Fingerprint: "pending:burst-census:legacy-sse",
				What:     "answers of one legacy SSE session produced at the same instant: the stream does not carry exactly one event per request id",
				Input:    map[string]any{"answer_sizes": sizes, "request_id": id},
				Observed: map[string]any{"events_with_this_id": perID[id], "events_on_stream": len(all)}, Expected: 1})
			degraded.Store(true)
			break
		}
	}
}

func runChatty(c *hk.Ctx) {
	n := 12
	if c.Thorough() {
		n = 48
	}
	for _, tr := range richTransports {
		k := newRichKit(c, tr)
		if k == nil {
			continue
		}
		var calls []func() opRes
		for i := 0; i < n; i++ {
			a := fmt.Sprintf("c%d-%04x~gate:chat~%d", i, c.Rng.Intn(1<<16), 200+i*37)
			b := fmt.Sprintf("e%d-%04x~gate:chat~%d", i, c.Rng.Intn(1<<16), 300+i*53)
			calls = append(calls, func() opRes { return k.tool("chatty", a) }, func() opRes { return k.tool("echo", b) })
		}
		done := make(chan []opRes, 1)
		go func() { done <- collect(0, calls...) }()
		rs := []opRes{k.releaseGate("chat", len(calls))}
		rs = append(rs, <-done...)
		k.verdicts(c, "chatty", rs, map[string]any{"concurrent": fmt.Sprintf("%d calls whose handler issues roots/list and a notification + %d plain calls, released together", n, n)})
		k.close()
	}
}

// errCall runs one real-client operation that the server answers with an error (or with an odd handler outcome): the call must
// come back by itself — an error naming its own token where the answer echoes one, or a result — and must not run into the ceiling.
func (k *richKit) errCall(what string, token string, f func(ctx context.Context) error) opRes {
	ctx, cancel := context.WithTimeout(context.Background(), callCeiling())
	defer cancel()
	err := f(ctx)
	res := opRes{what: what, want: "answered"}
	switch {
	case ctx.Err() == context.DeadlineExceeded:
		degraded.Store(true)
		res.err = "no answer: " + fmt.Sprint(err)
	case err != nil && (strings.Contains(err.Error(), "timeout") || strings.Contains(err.Error(), "no final response")):
		res.err = "no answer: " + err.Error()
	case token != "" && (err == nil || !strings.Contains(err.Error(), token)):
		res.got = fmt.Sprintf("an answer that does not name %q: %v", token, err)
	default:
		res.got = "answered"
	}
	return res
}

// runErrorsReal: concurrent calls of the real clients that are answered by errors of several classes, and calls whose handler
// produces every kind of outcome: each call gets exactly its own answer (the error names its own tool / prompt / resource /
// nonce), none is left without an answer.
func runErrorsReal(c *hk.Ctx) {
	for _, tr := range richTransports {
		k := newRichKit(c, tr)
		if k == nil {
			continue
		}
		var calls []func() opRes
		tool := func(name string, args map[string]interface{}) func(ctx context.Context) error {
			return func(ctx context.Context) error {
				_, err := k.cl.CallTool(ctx, &mcp.CallToolRequest{Params: mcp.CallToolParams{Name: name, Arguments: args}})
				return err
			}
		}
		for i := 0; i < 5; i++ {
			tok := fmt.Sprintf("x%d-%04x", i, c.Rng.Intn(1<<16))
			calls = append(calls,
				func() opRes {
					return k.errCall("tools/call with an empty name", "", tool("", map[string]interface{}{}))
				},
				func() opRes {
					return k.errCall("tools/call nope-"+tok, "nope-"+tok, tool("nope-"+tok, map[string]interface{}{}))
				},
				func() opRes {
					return k.errCall("outcome goerr "+tok, tok, tool("outcome", map[string]interface{}{"nonce": tok, "kind": "goerr"}))
				},
				func() opRes {
					return k.errCall("prompts/get nope-"+tok, "", func(ctx context.Context) error {
						req := &mcp.GetPromptRequest{}
						req.Params.Name = "nope-" + tok
						_, err := k.cl.GetPrompt(ctx, req)
						if err == nil {
							return fmt.Errorf("no error for an unknown prompt")
						}
						return nil
					})
				},
				func() opRes {
					return k.errCall("resources/read nope-"+tok, "", func(ctx context.Context) error {
						req := &mcp.ReadResourceRequest{}
						req.Params.URI = "verif://nope-" + tok
						_, err := k.cl.ReadResource(ctx, req)
						if err == nil {
							return fmt.Errorf("no error for an unknown resource")
						}
						return nil
					})
				})
		}
		for i, kind := range []string{"iserror", "nan", "inf", "chan", "nil", "nilslices", "ok"} {
			kind := kind
			tok := fmt.Sprintf("o%d-%04x", i, c.Rng.Intn(1<<16))
			calls = append(calls, func() opRes {
				return k.errCall("outcome "+kind, "", tool("outcome", map[string]interface{}{"nonce": tok, "kind": kind}))
			})
		}
		rs := collect(0, calls...)
		// errCall reports through got/want; an unknown prompt / resource answered without an error shows up as a Go error there
		k.verdicts(c, "errors", rs, map[string]any{"concurrent": fmt.Sprintf("%d calls answered by errors or odd handler outcomes, all at once", len(calls))})
		k.close()
	}
}
