package main

// (iii) server id echo: raw peers send tools/call with every id class to the six server modes and compare the id of the
// answer (found by the nonce in its result) with the id of the request: JSON-equal, a string stays a string.

import (
	"bufio"
	"bytes"
	"context"
	"encoding/json"
	"fmt"
	"io"
	"math/big"
	"net/http"
	"net/http/httptest"
	"strings"
	"sync"
	"time"

	"verif/harness/hk"

	mcp "trpc.group/trpc-go/trpc-mcp-go"
)

type idClass struct {
	name string
	raw  string // JSON text of the id
}

var idClasses = []idClass{
	{"string", `"abc"`}, {"empty-string", `""`}, {"numeric-string", `"5"`}, {"exp-string", `"1e+06"`}, {"unicode-string", `"héllo 😀"`}, {"escaped-string", `"a\"b<\u0001"`},
	{"zero", `0`}, {"one", `1`}, {"negative", `-1`}, {"million", `1000000`}, {"2^31", `2147483648`}, {"10^15", `1000000000000000`}, {"2^53", `9007199254740992`},
	{"float-looking-1.0", `1.0`}, {"float-looking-1e3", `1e3`}, {"fraction-1.5", `1.5`},
}

// canonID: ("string", value) or ("number", exact decimal/rational text) of a raw JSON id.
func canonID(raw string) (string, string) {
	dec := json.NewDecoder(strings.NewReader(raw))
	dec.UseNumber()
	var v interface{}
	if dec.Decode(&v) != nil {
		return "invalid", raw
	}
	switch x := v.(type) {
	case string:
		return "string", x
	case json.Number:
		r, ok := new(big.Rat).SetString(string(x))
		if !ok {
			return "invalid", raw
		}
		if r.IsInt() {
			return "number", r.Num().String()
		}
		return "number", "text:" + r.RatString()
	case nil:
		return "null", ""
	}
	return "other", raw
}

type answer struct {
	ID     json.RawMessage `json:"id"`
	Result struct {
		Content []struct {
			Text string `json:"text"`
		} `json:"content"`
	} `json:"result"`
}

func answerWithNonce(texts []string, nonce string) (string, bool) {
	for _, t := range texts {
		var a answer
		if json.Unmarshal([]byte(t), &a) != nil {
			continue
		}
		for _, ct := range a.Result.Content {
			if ct.Text == "echo:"+nonce {
				return string(a.ID), true
			}
		}
	}
	return "", false
}

func sseDatas(body string) []string {
	var out []string
	for _, l := range strings.Split(body, "\n") {
		l = strings.TrimSuffix(l, "\r")
		if strings.HasPrefix(l, "data:") {
			out = append(out, strings.TrimPrefix(strings.TrimPrefix(l, "data:"), " "))
		}
	}
	return out
}

func reportEcho(c *hk.Ctx, mode string, cl idClass, nonce string, gotRaw string, found bool) {
	wt, wv := canonID(cl.raw)
	if !found {
		c.Violate(hk.Violation{Fingerprint: "pending:echo:no-answer:" + mode + ":" + cl.name, What: "a well-formed tools/call got no answer carrying its result",
			Input: map[string]any{"mode": mode, "id": cl.raw, "nonce": nonce}})
		return
	}
	gt, gv := canonID(gotRaw)
	if gt != wt || gv != wv {
		c.Violate(hk.Violation{Fingerprint: "pending:echo:id-changed:" + mode + ":" + cl.name, What: "the answer's id is not JSON-equal to the request's id",
			Input: map[string]any{"mode": mode, "id": cl.raw}, Observed: gotRaw, Expected: cl.raw})
	}
	// model line for the classes the id model covers (strings, integers)
	if wt == "string" {
		c.Emit(map[string]any{"c": "pending.key", "kind": "sprintfV", "side": "echo", "id": map[string]any{"str": wv}}, map[string]any{"id": gv, "type": gt}, true, "echo-"+mode)
	} else if wt == "number" && !strings.HasPrefix(wv, "text:") {
		n, _ := new(big.Int).SetString(wv, 10)
		c.Emit(map[string]any{"c": "pending.key", "kind": "sprintfV", "side": "echo", "id": idJSON(n)}, map[string]any{"id": gv, "type": gt}, true, "echo-"+mode)
	} else {
		c.Count("echo-"+mode+"-"+cl.name, true, nil, "echo-"+mode+"-unmodelled")
	}
}

func callBody(raw, nonce string) string {
	return fmt.Sprintf(`{"jsonrpc":"2.0","id":%s,"method":"tools/call","params":{"name":"echo","arguments":{"nonce":%q}}}`, raw, nonce)
}

const initBody = `{"jsonrpc":"2.0","id":"init","method":"initialize","params":{"protocolVersion":"2025-03-26","capabilities":{},"clientInfo":{"name":"raw","version":"1"}}}`

func runEcho(c *hk.Ctx) {
	hc := &handlerCount{}
	seq := 0
	nonceFor := func(mode string) string { seq++; return fmt.Sprintf("e-%s-%d-%04x", mode, seq, c.Rng.Intn(1<<16)) }
	// four Streamable modes
	for _, postSSE := range []bool{false, true} {
		for _, srvMode := range []string{"stateful", "stateless"} {
			mode := fmt.Sprintf("streamable-%s-%s", map[bool]string{false: "json", true: "sse"}[postSSE], srvMode)
			f := hk.NewFixture(hk.SrvCfg{Mode: srvMode, Get: false, PostSSE: postSSE})
			tool, h := echoTool(hc)
			f.S.RegisterTool(tool, h)
			hdr := map[string]string{"Accept": "application/json, text/event-stream"}
			r := f.Post(hdr, initBody)
			if sid := r.Header.Get("Mcp-Session-Id"); sid != "" {
				hdr["Mcp-Session-Id"] = sid
			}
			f.Post(hdr, `{"jsonrpc":"2.0","method":"notifications/initialized"}`)
			for _, cl := range idClasses {
				nonce := nonceFor(mode)
				resp := f.Post(hdr, callBody(cl.raw, nonce))
				texts := []string{string(resp.Body)}
				if strings.Contains(resp.Header.Get("Content-Type"), "text/event-stream") {
					texts = sseDatas(string(resp.Body))
				}
				got, ok := answerWithNonce(texts, nonce)
				reportEcho(c, mode, cl, nonce, got, ok)
			}
			f.Close()
		}
	}
	// legacy SSE
	{
		srv := mcp.NewSSEServer("verif-sse", "1.0", mcp.WithSSEServerLogger(hk.QuietLogger{}), mcp.WithKeepAlive(false))
		tool, h := echoTool(hc)
		srv.RegisterTool(tool, h)
		ts := httptest.NewUnstartedServer(srv)
		ts.Config.ErrorLog = hk.QuietStdLog()
		ts.Start()
		f := &hk.Fixture{URL: ts.URL + srv.SSEPath(), HC: &http.Client{Transport: &http.Transport{MaxIdleConnsPerHost: 16}}, TS: ts}
		status, _, st, err := f.OpenStream(nil)
		if err != nil || status != 200 {
			c.Violate(hk.Violation{Fingerprint: "pending:harness:legacy-open", What: fmt.Sprint(status, err)})
		} else {
			evs := st.WaitEvents(1, ceiling)
			endpoint := ""
			if len(evs) > 0 {
				endpoint = evs[0].Data
				if strings.HasPrefix(endpoint, "/") {
					endpoint = ts.URL + endpoint
				}
			}
			post := func(body string) {
				f.Do("POST", endpoint, map[string]string{"Content-Type": "application/json"}, []byte(body))
			}
			post(initBody)
			post(`{"jsonrpc":"2.0","method":"notifications/initialized"}`)
			want := 2 // endpoint + initialize answer
			for _, cl := range idClasses {
				nonce := nonceFor("legacy")
				post(callBody(cl.raw, nonce))
				want++
				// wait for the event carrying the nonce (event-based, ceiling)
				deadline := time.Now().Add(ceiling)
				var got string
				found := false
				for !found && time.Now().Before(deadline) {
					all := st.WaitEvents(want, 200*time.Millisecond)
					var texts []string
					for _, e := range all {
						texts = append(texts, e.Data)
					}
					got, found = answerWithNonce(texts, nonce)
					if !found && len(all) >= want {
						break
					}
				}
				if !found {
					want-- // nothing came for this one
				}
				reportEcho(c, "legacy-sse", cl, nonce, got, found)
			}
			st.CloseByClient()
		}
		ts.CloseClientConnections()
		ts.Close()
	}
	// stdio
	{
		srv := mcp.NewStdioServer("verif-stdio", "1.0", mcp.WithStdioServerLogger(hk.QuietLogger{}))
		tool, h := echoTool(hc)
		srv.RegisterTool(tool, h)
		pr, pw := io.Pipe()
		or, ow := io.Pipe()
		ctx, cancel := context.WithCancel(context.Background())
		go mcp.VerifServeStdio(ctx, srv, pr, ow)
		lines := make(chan string, 1024)
		go func() {
			br := bufio.NewReaderSize(or, 1<<20)
			for {
				l, err := br.ReadString('\n')
				if l != "" {
					lines <- strings.TrimSpace(l)
				}
				if err != nil {
					close(lines)
					return
				}
			}
		}()
		var mu sync.Mutex
		var seen []string
		waitNonce := func(nonce string) (string, bool) {
			deadline := time.After(ceiling)
			for {
				mu.Lock()
				got, ok := answerWithNonce(seen, nonce)
				mu.Unlock()
				if ok {
					return got, true
				}
				select {
				case l, more := <-lines:
					if !more {
						return "", false
					}
					mu.Lock()
					seen = append(seen, l)
					mu.Unlock()
				case <-deadline:
					return "", false
				}
			}
		}
		pw.Write([]byte(initBody + "\n"))
		pw.Write([]byte(`{"jsonrpc":"2.0","method":"notifications/initialized"}` + "\n"))
		for _, cl := range idClasses {
			nonce := nonceFor("stdio")
			var buf bytes.Buffer
			buf.WriteString(callBody(cl.raw, nonce) + "\n")
			pw.Write(buf.Bytes())
			got, ok := waitNonce(nonce)
			reportEcho(c, "stdio", cl, nonce, got, ok)
		}
		cancel()
		pw.Close()
		ow.Close()
	}
}
