// Component "pending" (property C01): every call gets exactly one answer, and it is its own.
//
//	(i)   key functions: the library's requestIDKey (through a hook) and Go's fmt.Sprintf("%v", …) of int64 / decoded float64 /
//	      string ids, stdio's int64(float64) and the
//	      servers' uint64(float64) conversions, the JSON echo of an id — against the Lean model on a boundary grid + random ids;
//	(ii)  real runs: N concurrent callers x M calls on the three REAL clients (Streamable JSON and SSE answers, stateful and
//	      stateless; legacy SSE; stdio against a child process) with the request counter advanced through a hook, each call
//	      carrying a nonce — against the real servers and against scripted reference peers that answer in permuted order,
//	      twice, with a foreign body, with a string-typed id, with an unknown id or not at all; every run is replayed through
//	      the model (same ids, same frames) and the per-call outcomes are diffed; independent oracles: the value returned to a
//	      caller contains its own nonce, per-nonce handler counter == 1, nothing left in the client's pending table;
//	(iii) server id echo for every id class on all six server modes with raw peers.
package main

import (
	"encoding/json"
	"fmt"
	"math"
	"math/big"
	"os"
	"strconv"

	"verif/harness/hk"

	mcp "trpc.group/trpc-go/trpc-mcp-go"
)

func main() {
	if mode := os.Getenv(childEnv); mode != "" {
		childMain(mode)
		return
	}
	hk.Main(&hk.Component{Name: "pending", Rule: "(i) ids: grid {0, ±1, 10^6-1, 10^6, 10^6+1, 1234567, 10^15, 2^31, 2^53-1, 2^53, 2^53+1, 2^63-1, …} + seeded random integers of every magnitude, strings {empty, numeric-looking, exponent-looking, escapes, non-ASCII}; " +
		"(ii) counter starts {0, 10^6-k (crossing one million), 2^53-k}; callers x calls per run 8x5 (thorough 32x25); scripted peers: seeded permutation of the answers, each answer drawn from {ok, twice, foreign body first, string-typed id, float-typed id, unknown id, none}; " +
		"non-trivial = a run in which at least two calls were in flight at once and answers came back in another order than the requests, or an id at/above a boundary; " +
		"(iii) id classes {string, empty string, numeric-looking string, 0, 1, -1, 10^6, 2^31, 10^15, 2^53, 1.0, 1e3, 1.5} x {streamable json/sse x stateful/stateless, legacy SSE, stdio}",
		Run: run})
}

func run(c *hk.Ctx) {
	keyGrid(c)
	runReal(c)
	runScripted(c)
	runSizes(c)
	runPrompt(c)
	runStray(c)
	runKill(c)
	runMixed(c)
	runBurstSizes(c)
	runChatty(c)
	runErrorsReal(c)
	runErrorCensus(c)
	runInitialize(c)
	runEcho(c)
}

// ---------------------------------------------------------------- (i) key functions

func idJSON(n *big.Int) any {
	if n.IsInt64() && n.Int64() <= 1<<53 && n.Int64() >= -(1<<53) {
		return map[string]any{"int": n.Int64()}
	}
	return map[string]any{"int": n.String()} // beyond 2^53: as a decimal string (JSON readers need not keep it exact)
}

func decodeNum(text string) (float64, bool) {
	var v interface{}
	if err := json.Unmarshal([]byte(text), &v); err != nil {
		return 0, false
	}
	f, ok := v.(float64)
	return f, ok
}

func keyGrid(c *hk.Ctx) {
	pow := func(b, e int64) *big.Int { return new(big.Int).Exp(big.NewInt(b), big.NewInt(e), nil) }
	add := func(a *big.Int, d int64) *big.Int { return new(big.Int).Add(a, big.NewInt(d)) }
	var grid []*big.Int
	for _, b := range []*big.Int{big.NewInt(0), big.NewInt(1), big.NewInt(9), big.NewInt(10), big.NewInt(99999), big.NewInt(100000), pow(10, 6), big.NewInt(1234567), big.NewInt(1200000), pow(10, 7), pow(10, 9), pow(2, 31), pow(2, 32),
		pow(10, 15), big.NewInt(123456789012345), pow(2, 52), pow(2, 53), pow(10, 16), pow(2, 54), pow(2, 60), pow(2, 62), pow(2, 63), pow(2, 64), pow(10, 18), pow(10, 19)} {
		for _, d := range []int64{-2, -1, 0, 1, 2, 3} {
			v := add(b, d)
			grid = append(grid, v, new(big.Int).Neg(v))
		}
	}
	nRand := 400
	if c.Thorough() {
		nRand = 20000
	}
	for i := 0; i < nRand; i++ {
		bits := 1 + c.Rng.Intn(64)
		v := new(big.Int).Rand(c.Rng, new(big.Int).Lsh(big.NewInt(1), uint(bits)))
		if c.Rng.Intn(4) == 0 {
			// trailing zeros: 12 * 10^k
			v = new(big.Int).Mul(big.NewInt(int64(1+c.Rng.Intn(999))), pow(10, int64(c.Rng.Intn(17))))
		}
		if c.Rng.Intn(5) == 0 {
			v.Neg(v)
		}
		grid = append(grid, v)
	}
	seen := map[string]bool{}
	two53 := pow(2, 53)
	for _, n := range grid {
		if seen[n.String()] {
			continue
		}
		seen[n.String()] = true
		abs := new(big.Int).Abs(n)
		boundary := abs.Cmp(big.NewInt(999999)) >= 0
		// request side: the id is an int64 held in an interface{}
		if n.IsInt64() {
			i := n.Int64()
			c.Emit(map[string]any{"c": "pending.key", "kind": "idKey", "side": "req", "id": idJSON(n)}, map[string]any{"key": mcp.VerifRequestIDKey(i)}, boundary, "key-req-idKey")
			c.Emit(map[string]any{"c": "pending.key", "kind": "sprintfV", "side": "req", "id": idJSON(n)}, map[string]any{"key": fmt.Sprintf("%v", interface{}(i))}, boundary, "key-req-sprintfV")
			c.Emit(map[string]any{"c": "pending.key", "kind": "int64", "side": "req", "id": idJSON(n)}, map[string]any{"key": strconv.FormatInt(i, 10)}, boundary, "key-req-int64")
			c.Emit(map[string]any{"c": "pending.key", "kind": "uint64", "side": "req", "id": idJSON(n)}, map[string]any{"key": strconv.FormatUint(uint64(i), 10)}, boundary, "key-req-uint64")
		}
		// wire side: the id is the JSON number n, decoded into an interface{} (= float64)
		f, ok := decodeNum(n.String())
		if !ok {
			continue
		}
		if abs.Cmp(two53) <= 0 {
			c.Emit(map[string]any{"c": "pending.key", "kind": "sprintfV", "side": "wire", "id": idJSON(n)}, map[string]any{"key": fmt.Sprintf("%v", interface{}(f))}, boundary, "key-wire-sprintfV")
		}
		if f >= -(1<<63) && f < 1<<64 {
			// the library's id-normalising helper on the decoded float64 (outside this range it falls back to %g)
			c.Emit(map[string]any{"c": "pending.key", "kind": "idKey", "side": "wire", "id": idJSON(n)}, map[string]any{"key": mcp.VerifRequestIDKey(f)}, boundary, "key-wire-idKey")
		}
		c.Emit(map[string]any{"c": "pending.key", "kind": "int64", "side": "wire", "id": idJSON(n)}, map[string]any{"key": strconv.FormatInt(int64(f), 10)}, boundary, "key-wire-int64")
		c.Emit(map[string]any{"c": "pending.key", "kind": "uint64", "side": "wire", "id": idJSON(n)}, map[string]any{"key": strconv.FormatUint(uint64(f), 10)}, boundary, "key-wire-uint64")
		if n.Sign() >= 0 {
			bf := new(big.Float).SetFloat64(f)
			bi, _ := bf.Int(nil)
			c.Emit(map[string]any{"c": "pending.f64", "n": n.String()}, map[string]any{"v": bi.String()}, abs.Cmp(two53) > 0, "f64")
		}
		// echo: decode into interface{}, marshal again (what a server does with the id of a request)
		if abs.Cmp(two53) <= 0 && !math.IsInf(f, 0) { // the property's domain: beyond 2^53 Go prints the float's shortest digits, not the integer's
			b, _ := json.Marshal(interface{}(f))
			var back interface{}
			typ := "other"
			if json.Unmarshal(b, &back) == nil {
				if _, ok := back.(float64); ok {
					typ = "number"
				}
			}
			// canonical digits of the echoed number
			bf := new(big.Float).SetFloat64(f)
			bi, _ := bf.Int(nil)
			echoed := bi.String()
			if string(b) != echoed {
				echoed = "text:" + string(b) // Go printed something else than plain digits
			}
			c.Emit(map[string]any{"c": "pending.key", "kind": "sprintfV", "side": "echo", "id": idJSON(n)}, map[string]any{"id": echoed, "type": typ}, boundary, "echo-int")
		}
	}
	strs := []string{"", "a", "abc", "5", "007", "1e+06", "1000000", "-1", "1.5", "null", "true", " x ", "a\"b", "a\\b", "a/b", "<tag>&", "line\nbreak", "tab\tx", "  ", "héllo", "日本語", "😀", "\x00\x01\x1f", "server_req_1"}
	for i := 0; i < 60; i++ {
		alphabet := []rune{'a', '0', '9', 'e', '+', '.', '"', '\\', '<', '&', '\n', 'é', '😀', ' ', ' ', 'u'}
		var rs []rune
		for j := c.Rng.Intn(7); j >= 0; j-- {
			rs = append(rs, alphabet[c.Rng.Intn(len(alphabet))])
		}
		strs = append(strs, string(rs))
	}
	for _, s := range strs {
		c.Emit(map[string]any{"c": "pending.key", "kind": "idKey", "side": "req", "id": map[string]any{"str": s}}, map[string]any{"key": mcp.VerifRequestIDKey(s)}, true, "key-req-string-idKey")
		c.Emit(map[string]any{"c": "pending.key", "kind": "sprintfV", "side": "req", "id": map[string]any{"str": s}}, map[string]any{"key": fmt.Sprintf("%v", interface{}(s))}, true, "key-req-string")
		b, _ := json.Marshal(s)
		var v interface{}
		json.Unmarshal(b, &v)
		c.Emit(map[string]any{"c": "pending.key", "kind": "idKey", "side": "wire", "id": map[string]any{"str": s}}, map[string]any{"key": mcp.VerifRequestIDKey(v)}, true, "key-wire-string-idKey")
		c.Emit(map[string]any{"c": "pending.key", "kind": "sprintfV", "side": "wire", "id": map[string]any{"str": s}}, map[string]any{"key": fmt.Sprintf("%v", v)}, true, "key-wire-string")
		typ := "other"
		if _, ok := v.(string); ok {
			typ = "string"
		}
		b2, _ := json.Marshal(v)
		var v2 interface{}
		json.Unmarshal(b2, &v2)
		c.Emit(map[string]any{"c": "pending.key", "kind": "sprintfV", "side": "echo", "id": map[string]any{"str": s}}, map[string]any{"id": fmt.Sprint(v2), "type": typ}, true, "echo-string")
		// the int64 / uint64 tables refuse string ids at lookup
		c.Emit(map[string]any{"c": "pending.key", "kind": "int64", "side": "wire", "id": map[string]any{"str": s}}, map[string]any{"key": nil}, false, "key-wire-string-int64")
	}
}
