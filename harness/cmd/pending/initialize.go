package main

// Concurrent initialize: many initialize requests in flight at once, negotiating the two supported protocol versions in
// turn, on every server mode (all of them answer through the same handleInitialize). Each answer is computed from its own
// request's arguments: the protocolVersion in the answer with a request's id is the one that request asked for.
//   - through the raw peer of each of the six modes (one connection / session, the requests sent at the same time);
//   - on the Streamable modes also as many clients: every initialize without a session id (a new session each).

import (
	"encoding/json"
	"fmt"
	"strings"
	"sync"

	"verif/harness/hk"
)

var initVersions = []string{"2024-11-05", "2025-03-26"}

func initReq(round, k int) (censusReq, string) {
	v := initVersions[k%2]
	id := fmt.Sprintf(`"init-%d-%d"`, round, k)
	return censusReq{class: "initialize-" + v, idRaw: id, body: fmt.Sprintf(
		`{"jsonrpc":"2.0","id":%s,"method":"initialize","params":{"protocolVersion":%q,"capabilities":{},"clientInfo":{"name":"peer-%d-%d","version":"1"}}}`, id, v, round, k)}, v
}

func versionOf(answer string) string {
	var m struct {
		Result struct {
			ProtocolVersion string `json:"protocolVersion"`
		} `json:"result"`
	}
	if json.Unmarshal([]byte(answer), &m) != nil {
		return ""
	}
	return m.Result.ProtocolVersion
}

func runInitialize(c *hk.Ctx) {
	rounds, width := 6, 24
	if c.Thorough() {
		rounds, width = 30, 48
	}
	judge := func(mode string, how string, want map[string]string, got map[string][]string) {
		bad := map[string]any{}
		for id, v := range want {
			as := got[id]
			ok := len(as) == 1 && versionOf(as[0]) == v
			if !ok && len(bad) < 4 {
				bad[id] = map[string]any{"asked_for": v, "answers_with_its_id": clipAll(as)}
			}
		}
		c.Count("initialize-"+mode+"-"+how, len(bad) == 0, nil, "initialize-"+mode, "initialize-concurrent")
		if len(bad) > 0 && !degraded.Load() {
			c.Violate(hk.Violation{Fingerprint: "pending:initialize:answer-from-other-request:" + mode,
				What:     "initialize requests in flight at the same time negotiating different protocol versions: the answer bearing a request's id does not carry the protocolVersion this request asked for (both versions are supported)",
				Input:    map[string]any{"mode": mode, "how": how, "requests_in_flight": len(want), "versions_asked_for_in_turn": initVersions},
				Observed: bad, Expected: "exactly one answer per id, result.protocolVersion = the version in that request"})
		}
	}
	for _, name := range rawModeNames {
		m := newRawMode(name)
		if m == nil {
			continue
		}
		for round := 0; round < rounds && !degraded.Load(); round++ {
			var reqs []censusReq
			want := map[string]string{}
			for k := 0; k < width; k++ {
				r, v := initReq(round, k)
				reqs = append(reqs, r)
				want[r.idRaw] = v
			}
			judge(name, "one-session", want, m.exchange(reqs, true))
		}
		m.close()
	}
	for _, name := range rawModeNames {
		if !strings.HasPrefix(name, "streamable") {
			continue
		}
		mode := "stateful"
		if strings.HasSuffix(name, "stateless") {
			mode = "stateless"
		}
		f := hk.NewFixture(hk.SrvCfg{Mode: mode, Get: false, PostSSE: strings.Contains(name, "-sse-")})
		for round := 0; round < rounds && !degraded.Load(); round++ {
			var reqs []censusReq
			want := map[string]string{}
			for k := 0; k < width; k++ {
				r, v := initReq(round, k)
				reqs = append(reqs, r)
				want[r.idRaw] = v
			}
			var mu sync.Mutex
			got := map[string][]string{}
			eachReq(reqs, true, func(rq censusReq) {
				resp := f.Post(map[string]string{"Accept": "application/json, text/event-stream"}, rq.body)
				texts := []string{string(resp.Body)}
				if strings.Contains(resp.Header.Get("Content-Type"), "text/event-stream") {
					texts = sseDatas(string(resp.Body))
				}
				for _, t := range texts {
					collectInto(&mu, got, t)
				}
			})
			judge(name, "new-sessions", want, got)
		}
		f.Close()
	}
}
