package main

// (ii-b) the three real clients against scripted reference peers that control order, duplication and ids of the answers.

import (
	"context"
	"encoding/json"
	"fmt"
	"io"
	"net/http"
	"net/http/httptest"
	"os"
	"sort"
	"strconv"
	"strings"
	"sync"
	"sync/atomic"
	"time"

	"verif/harness/hk"

	mcp "trpc.group/trpc-go/trpc-mcp-go"
)

const foreignBase = 1000000000000 // body marker of a frame that carries somebody else's (nobody's) result

type plan struct {
	start    int64
	k        int
	class    map[int64]string // per request id
	frames   []scriptFrame    // phase 1, in writing order
	frames2  []scriptFrame    // phase 2 (two-phase plans): written once the harness has seen the callers of `early` return; the last one answers the sentinel (highest id)
	modelEv  []any            // inject+deliver per phase-1 frame
	modelEv2 []any
	early    []int64 // calls that have returned before phase 2 starts
}

var classes = []string{"ok", "ok", "ok", "twice", "foreignFirst", "stringId", "floatId", "unknown", "none"}

// mkPlan draws a script. twoPhase: the second frame of an id ("twice", "foreignFirst") is written only after that call has
// returned — the stdio client closes a call's channel when the call returns, and a frame that finds the entry an instant
// before the close makes its reader die (send on closed channel, reported separately); the harness must not depend on that race.
func mkPlan(c *hk.Ctx, start int64, k int, twoPhase bool) plan {
	p := plan{start: start, k: k, class: map[int64]string{}}
	type fr struct {
		f   scriptFrame
		id  int64
		seq int
		mid any
	}
	var fs, second []fr
	for i := 0; i < k-1; i++ {
		id := start + 1 + int64(i)
		cl := classes[c.Rng.Intn(len(classes))]
		p.class[id] = cl
		raw := strconv.FormatInt(id, 10)
		num := map[string]any{"int": id}
		switch cl {
		case "ok":
			fs = append(fs, fr{scriptFrame{raw, id}, id, 0, num})
		case "twice":
			fs = append(fs, fr{scriptFrame{raw, id}, id, 0, num})
			second = append(second, fr{scriptFrame{raw, id}, id, 1, num})
		case "foreignFirst":
			fs = append(fs, fr{scriptFrame{raw, foreignBase + id}, id, 0, num})
			second = append(second, fr{scriptFrame{raw, id}, id, 1, num})
		case "stringId":
			fs = append(fs, fr{scriptFrame{`"` + raw + `"`, id}, id, 0, map[string]any{"str": raw}})
		case "floatId":
			fs = append(fs, fr{scriptFrame{raw + ".0", id}, id, 0, num})
		case "unknown":
			u := start + int64(k) + 100 + int64(i)
			fs = append(fs, fr{scriptFrame{strconv.FormatInt(u, 10), u}, u, 0, map[string]any{"int": u}})
		}
	}
	sent := start + int64(k)
	p.class[sent] = "ok"
	sentinel := fr{scriptFrame{strconv.FormatInt(sent, 10), sent}, sent, 0, map[string]any{"int": sent}}
	if !twoPhase {
		fs = append(fs, second...)
		second = nil
	}
	c.Rng.Shuffle(len(fs), func(i, j int) { fs[i], fs[j] = fs[j], fs[i] })
	// keep the two frames of one id in their order
	pos := map[int64]int{}
	for i := range fs {
		if j, ok := pos[fs[i].id]; ok && fs[j].seq > fs[i].seq {
			fs[i], fs[j] = fs[j], fs[i]
		}
		if _, ok := pos[fs[i].id]; !ok {
			pos[fs[i].id] = i
		}
	}
	c.Rng.Shuffle(len(second), func(i, j int) { second[i], second[j] = second[j], second[i] })
	for _, f := range second {
		p.early = append(p.early, f.id)
	}
	if twoPhase {
		second = append(second, sentinel)
	} else {
		fs = append(fs, sentinel)
	}
	for _, f := range fs {
		p.frames = append(p.frames, f.f)
		p.modelEv = append(p.modelEv, map[string]any{"e": "inject", "id": f.mid, "body": f.f.Body}, map[string]any{"e": "deliver", "i": 0})
	}
	for _, f := range second {
		p.frames2 = append(p.frames2, f.f)
		p.modelEv2 = append(p.modelEv2, map[string]any{"e": "inject", "id": f.mid, "body": f.f.Body}, map[string]any{"e": "deliver", "i": 0})
	}
	return p
}

// scriptedOutcome canonicalises what the callers observed into the model's per-id map.
func scriptedOutcome(res []callRes, idOf func(string) (string, bool)) map[string]string {
	done := map[string]string{}
	for _, r := range res {
		id, ok := idOf(r.nonce)
		if !ok {
			continue
		}
		if r.err != "" {
			done[id] = "error"
		} else if strings.HasPrefix(r.text, "body:") {
			done[id] = "answer:" + strings.TrimPrefix(r.text, "body:")
		} else {
			done[id] = "answer:?" + r.text
		}
	}
	return done
}

func emitScripted(c *hk.Ctx, kind string, p plan, done map[string]string, tag string) {
	var evs []any
	for i := 0; i < p.k; i++ {
		evs = append(evs, map[string]any{"e": "issue"}, map[string]any{"e": "register", "c": p.start + 1 + int64(i)})
	}
	evs = append(evs, p.modelEv...)
	isEarly := map[int64]bool{}
	for _, id := range p.early {
		isEarly[id] = true
		evs = append(evs, map[string]any{"e": "finish", "c": id})
	}
	evs = append(evs, p.modelEv2...)
	for i := 0; i < p.k; i++ {
		if id := p.start + 1 + int64(i); !isEarly[id] {
			evs = append(evs, map[string]any{"e": "finish", "c": id})
		}
	}
	c.Emit(map[string]any{"c": "pending.run", "kind": kind, "start": p.start, "evs": evs}, map[string]any{"done": done, "pending": []int{}, "disabled": nil}, true, tag)
}

// driveScripted fires k concurrent calls, waits for the sentinel's caller, cancels the callers whose request got no frame at
// all, gives the rest a grace period (their frames were dispatched before the sentinel's), cancels what is left.
func driveScripted(c *hk.Ctx, call caller, p plan, tag string, idOf func(string) (string, bool), startPhase2 func()) []callRes {
	nonces := mkNonces(c, tag, p.k, 1)
	var cancels sync.Map
	resCh := make(chan []callRes, 1)
	doneOne := make(chan string, p.k)
	go func() {
		resCh <- fire(func(ctx context.Context, nonce string) (*mcp.CallToolResult, error) {
			r, err := call(ctx, nonce)
			doneOne <- nonce
			return r, err
		}, nonces, &cancels)
	}()
	returned := map[string]bool{}
	sentinelID := strconv.FormatInt(p.start+int64(p.k), 10)
	deadline := time.After(callCeiling())
	if startPhase2 != nil {
		// phase 2 starts once every call that gets a second frame has returned with its first one
		want := map[string]bool{}
		for _, id := range p.early {
			want[strconv.FormatInt(id, 10)] = true
		}
		back := 0
		for back < len(want) {
			select {
			case n := <-doneOne:
				returned[n] = true
				if id, ok := idOf(n); ok && want[id] {
					back++
				}
				continue
			case <-deadline:
				degraded.Store(true)
			}
			break
		}
		startPhase2()
	}
	sentinelBack := false
	for !sentinelBack {
		select {
		case n := <-doneOne:
			returned[n] = true
			if id, ok := idOf(n); ok && id == sentinelID {
				sentinelBack = true
			}
		case <-deadline:
			degraded.Store(true)
			sentinelBack = true // give up: everything left is cancelled below and shows up as a disagreement
		}
	}
	cancelClass := func(pred func(cl string) bool) {
		for _, mine := range nonces {
			for _, n := range mine {
				if returned[n] {
					continue
				}
				id, ok := idOf(n)
				if !ok {
					continue
				}
				v, _ := strconv.ParseInt(id, 10, 64)
				if pred(p.class[v]) {
					if cf, ok := cancels.Load(n); ok {
						cf.(context.CancelFunc)()
					}
				}
			}
		}
	}
	cancelClass(func(cl string) bool { return cl == "unknown" || cl == "none" })
	grace := time.After(1500 * time.Millisecond)
	for len(returned) < p.k {
		select {
		case n := <-doneOne:
			returned[n] = true
			continue
		case <-grace:
		}
		break
	}
	cancelClass(func(string) bool { return true })
	return <-resCh
}

func runScripted(c *hk.Ctx) {
	rounds := 2
	k := 14
	if c.Thorough() {
		rounds, k = 12, 40
	}
	for r := 0; r < rounds; r++ {
		start := []int64{0, 999999 - int64(k)}[r%2]
		scriptedLegacy(c, mkPlan(c, start, k, false))
		scriptedStdio(c, mkPlan(c, start, k, true), r)
	}
	scriptedStdio(c, mkPlan(c, (1<<53)-int64(k), k, true), 99)
	for _, mode := range []string{"json", "sse", "sse-handlers"} {
		scriptedStreamable(c, mode, 0)
		scriptedStreamable(c, mode, 999990)
	}
}

// ---- legacy SSE scripted peer

func scriptedLegacy(c *hk.Ctx, p plan) {
	wl := newWireLog()
	frames := make(chan string, 1024)
	var once sync.Once
	got := 0
	var mu sync.Mutex
	mux := http.NewServeMux()
	mux.HandleFunc("/sse", func(w http.ResponseWriter, r *http.Request) {
		fl := w.(http.Flusher)
		w.Header().Set("Content-Type", "text/event-stream")
		w.WriteHeader(200)
		fmt.Fprint(w, "event: endpoint\ndata: /message?sessionId=scripted\n\n")
		fl.Flush()
		for {
			select {
			case f := <-frames:
				fmt.Fprintf(w, "event: message\ndata: %s\n\n", f)
				fl.Flush()
			case <-r.Context().Done():
				return
			}
		}
	})
	mux.HandleFunc("/message", func(w http.ResponseWriter, r *http.Request) {
		b, _ := io.ReadAll(r.Body)
		m, ok := wl.note(b)
		w.WriteHeader(http.StatusAccepted)
		if !ok {
			return
		}
		switch m.Method {
		case "initialize":
			frames <- initResult(m.ID, "2024-11-05")
		case "tools/call":
			mu.Lock()
			got++
			all := got == p.k
			mu.Unlock()
			if all {
				once.Do(func() {
					for _, f := range p.frames {
						frames <- frameJSON(f)
					}
				})
			}
		}
	})
	ts := httptest.NewUnstartedServer(mux)
	ts.Config.ErrorLog = hk.QuietStdLog()
	ts.Start()
	defer func() { ts.CloseClientConnections(); ts.Close() }()
	cl, err := mcp.NewSSEClient(ts.URL+"/sse", mcp.Implementation{Name: "verif-client", Version: "1"}, mcp.WithClientLogger(hk.QuietLogger{}))
	if err != nil {
		c.Violate(hk.Violation{Fingerprint: "pending:harness:new-client", What: err.Error()})
		return
	}
	defer cl.Close()
	ictx, icancel := context.WithTimeout(context.Background(), callCeiling())
	_, err = cl.Initialize(ictx, &mcp.InitializeRequest{})
	icancel()
	if err != nil {
		degraded.Store(true)
		c.Violate(hk.Violation{Fingerprint: "pending:harness:initialize:scripted-legacy", What: err.Error()})
		return
	}
	mcp.VerifSetRequestID(cl, p.start)
	res := driveScripted(c, func(ctx context.Context, nonce string) (*mcp.CallToolResult, error) {
		return cl.CallTool(ctx, &mcp.CallToolRequest{Params: mcp.CallToolParams{Name: "echo", Arguments: map[string]interface{}{"nonce": nonce}}})
	}, p, "sl", wl.get, nil)
	done := scriptedOutcome(res, wl.get)
	emitScripted(c, keyKindOf("legacy"), p, done, "scripted-legacy")
	if n := mcp.VerifPendingClientRequests(cl); n != 0 {
		c.Violate(hk.Violation{Fingerprint: "pending:table-not-empty:legacy", What: "entries left in the client's pending table after every call returned", Observed: n})
	}
}

// ---- stdio scripted peer (child process)

// panicLog counts "readLoop panic" lines of the stdio client.
type panicLog struct {
	hk.QuietLogger
	n atomic.Int64
}

func (p *panicLog) Errorf(format string, args ...interface{}) {
	if strings.Contains(format, "readLoop panic") {
		p.n.Add(1)
	}
}

func scriptedStdio(c *hk.Ctx, p plan, round int) {
	mapFile := fmt.Sprintf("%s/stdio-script-map-%d-%d.txt", c.Dir, p.start, round)
	goFile := mapFile + ".phase2"
	sj, _ := json.Marshal(script{K: p.k, Frames: p.frames, Frames2: p.frames2, GoFile: goFile})
	panics := &panicLog{}
	sc, err := mcp.NewStdioClient(mcp.StdioTransportConfig{
		ServerParams: mcp.StdioServerParameters{Command: selfExe(), Env: map[string]string{childEnv: "script", childMapEnv: mapFile, childScriptEnv: string(sj)}},
		Timeout:      ceiling}, mcp.Implementation{Name: "verif-client", Version: "1"}, mcp.WithStdioLogger(panics))
	if err != nil {
		c.Violate(hk.Violation{Fingerprint: "pending:harness:new-stdio-client", What: err.Error()})
		return
	}
	defer endStdioPeer(sc)
	ictx, icancel := context.WithTimeout(context.Background(), callCeiling())
	_, err = sc.Initialize(ictx, &mcp.InitializeRequest{})
	icancel()
	if err != nil {
		degraded.Store(true)
		c.Violate(hk.Violation{Fingerprint: "pending:harness:initialize:scripted-stdio", What: err.Error()})
		return
	}
	mcp.VerifSetStdioRequestID(sc, p.start)
	idOf := func(n string) (string, bool) { s, ok := readMap(mapFile)[n]; return s, ok }
	res := driveScripted(c, func(ctx context.Context, nonce string) (*mcp.CallToolResult, error) {
		return sc.CallTool(ctx, &mcp.CallToolRequest{Params: mcp.CallToolParams{Name: "echo", Arguments: map[string]interface{}{"nonce": nonce}}})
	}, p, "ss", idOf, func() { os.WriteFile(goFile, []byte("go"), 0o644) })
	done := scriptedOutcome(res, idOf)
	if panics.n.Load() > 0 {
		// the reader goroutine of the stdio client died (send on a closed channel, recovered in readLoop): timing dependent,
		// recorded in the evidence, not judged here
		c.Tag("stdio-client-reader-died")
		c.Noise()
		return
	}
	emitScripted(c, "int64", p, done, "scripted-stdio")
	if n := mcp.VerifPendingClientRequests(sc); n != 0 {
		c.Violate(hk.Violation{Fingerprint: "pending:table-not-empty:stdio", What: "entries left in the client's pending table after every call returned", Observed: n})
	}
}

// ---- Streamable scripted peer: the answer is written on the POST's own response; the class is part of the nonce

var jsonClasses = []string{"ok", "wrongid", "stringid", "floatid"}
var sseClasses = []string{"ok", "notifFirst", "wrongidOnly", "wrongThenOk", "twoBodies", "stringid", "nothing"}

func scriptedStreamable(c *hk.Ctx, mode string, start int64) {
	wl := newWireLog()
	h := http.HandlerFunc(func(w http.ResponseWriter, r *http.Request) {
		if r.Method != http.MethodPost {
			w.WriteHeader(http.StatusMethodNotAllowed)
			return
		}
		b, _ := io.ReadAll(r.Body)
		m, ok := wl.note(b)
		if !ok {
			w.WriteHeader(400)
			return
		}
		switch {
		case m.Method == "initialize":
			w.Header().Set("Content-Type", "application/json")
			fmt.Fprint(w, initResult(m.ID, "2025-03-26"))
		case m.Method == "tools/call":
			id, _ := strconv.ParseInt(string(m.ID), 10, 64)
			cl := m.Params.Arguments.Nonce[strings.LastIndexByte(m.Params.Arguments.Nonce, '~')+1:]
			frame := func(rawID string, body int64) string { return frameJSON(scriptFrame{rawID, body}) }
			raw := strconv.FormatInt(id, 10)
			if mode == "json" {
				w.Header().Set("Content-Type", "application/json")
				switch cl {
				case "ok":
					fmt.Fprint(w, frame(raw, id))
				case "wrongid":
					fmt.Fprint(w, frame(strconv.FormatInt(id+7, 10), id))
				case "stringid":
					fmt.Fprint(w, frame(`"`+raw+`"`, id))
				case "floatid":
					fmt.Fprint(w, frame(raw+".0", id))
				}
				return
			}
			w.Header().Set("Content-Type", "text/event-stream")
			w.WriteHeader(200)
			ev := func(n int, data string) { fmt.Fprintf(w, "id: e%d\ndata: %s\n\n", n, data) }
			notif := `{"jsonrpc":"2.0","method":"notifications/message","params":{"level":"info","data":"x"}}`
			switch cl {
			case "ok":
				ev(1, frame(raw, id))
			case "notifFirst":
				ev(1, notif)
				ev(2, frame(raw, id))
			case "wrongidOnly":
				ev(1, frame(strconv.FormatInt(id+7, 10), foreignBase+id))
			case "wrongThenOk":
				ev(1, frame(strconv.FormatInt(id+7, 10), foreignBase+id))
				ev(2, frame(raw, id))
			case "twoBodies":
				ev(1, frame(raw, id))
				ev(2, frame(raw, foreignBase+id))
			case "stringid":
				ev(1, frame(`"`+raw+`"`, id))
			case "nothing":
				ev(1, notif)
			}
		default:
			w.WriteHeader(http.StatusAccepted)
		}
	})
	ts := httptest.NewUnstartedServer(h)
	ts.Config.ErrorLog = hk.QuietStdLog()
	ts.Start()
	defer ts.Close()
	cl, err := mcp.NewClient(ts.URL+"/mcp", mcp.Implementation{Name: "verif-client", Version: "1"}, mcp.WithClientLogger(hk.QuietLogger{}), mcp.WithClientGetSSEEnabled(false))
	if err != nil {
		c.Violate(hk.Violation{Fingerprint: "pending:harness:new-client", What: err.Error()})
		return
	}
	defer cl.Close()
	ictx, icancel := context.WithTimeout(context.Background(), callCeiling())
	_, err = cl.Initialize(ictx, &mcp.InitializeRequest{})
	icancel()
	if err != nil {
		degraded.Store(true)
		c.Violate(hk.Violation{Fingerprint: "pending:harness:initialize:scripted-streamable", What: err.Error()})
		return
	}
	handlers := mode == "sse-handlers"
	if handlers {
		cl.RegisterNotificationHandler("notifications/message", func(n *mcp.JSONRPCNotification) error { return nil })
	}
	mcp.VerifSetRequestID(cl, start)
	cls := sseClasses
	if mode == "json" {
		cls = jsonClasses
	}
	reps := 2
	var nonces [][]string
	for i, clName := range cls {
		for j := 0; j < reps; j++ {
			nonces = append(nonces, []string{fmt.Sprintf("x%d-%d-%04x~%s", i, j, c.Rng.Intn(1<<16), clName)})
		}
	}
	var cancels sync.Map
	res := fire(func(ctx context.Context, nonce string) (*mcp.CallToolResult, error) {
		return cl.CallTool(ctx, &mcp.CallToolRequest{Params: mcp.CallToolParams{Name: "echo", Arguments: map[string]interface{}{"nonce": nonce}}})
	}, nonces, &cancels)
	sort.Slice(res, func(i, j int) bool { return res[i].nonce < res[j].nonce })
	for _, r := range res {
		raw, ok := wl.get(r.nonce)
		if !ok {
			continue
		}
		id, _ := strconv.ParseInt(raw, 10, 64)
		clName := r.nonce[strings.LastIndexByte(r.nonce, '~')+1:]
		out := "error"
		if r.err == "" && strings.HasPrefix(r.text, "body:") {
			out = "answer:" + strings.TrimPrefix(r.text, "body:")
		}
		num := map[string]any{"int": id}
		fr := func(idv any, body int64) any { return map[string]any{"id": idv, "body": body} }
		if mode == "json" {
			var f any
			switch clName {
			case "ok", "floatid":
				f = fr(num, id)
			case "wrongid":
				f = fr(map[string]any{"int": id + 7}, id)
			case "stringid":
				f = fr(map[string]any{"str": raw}, id)
			}
			op := map[string]any{"c": "pending.postJson"}
			for k, v := range f.(map[string]any) {
				op[k] = v
			}
			c.Emit(op, map[string]any{"out": out}, clName != "ok", "scripted-stream-json", "scripted-json-"+clName)
			continue
		}
		var evs []any
		switch clName {
		case "ok":
			evs = []any{fr(num, id)}
		case "notifFirst":
			evs = []any{"n", fr(num, id)}
		case "wrongidOnly":
			evs = []any{fr(map[string]any{"int": id + 7}, foreignBase+id)}
		case "wrongThenOk":
			evs = []any{fr(map[string]any{"int": id + 7}, foreignBase+id), fr(num, id)}
		case "twoBodies":
			evs = []any{fr(num, id), fr(num, foreignBase+id)}
		case "stringid":
			evs = []any{fr(map[string]any{"str": raw}, id)}
		case "nothing":
			evs = []any{"n"}
		}
		c.Emit(map[string]any{"c": "pending.postSse", "kind": keyKindOf("stream-sse"), "call": id, "handlers": handlers, "evs": evs}, map[string]any{"out": out}, clName != "ok", "scripted-stream-"+mode, "scripted-sse-"+clName)
	}
}
