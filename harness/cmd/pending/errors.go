package main

// Exactly-one-answer census with raw peers on the six server modes, for requests that are answered by ERRORS of every
// class (missing / wrong-typed params, missing name, unknown tool / prompt / resource / method, failing handler) and for
// handler outcomes of every kind (result, Go error, tool-level error, a result JSON cannot encode — NaN, Inf, chan —, nil
// result, result with nil slices), with integer and string ids.
// The requests are sent once one after the other (reference) and once all at the same time from many goroutines on a
// fresh server: every request must be answered exactly once with its own id, and its answer must be the one the
// reference run gave for that very request (error code, echoed name) — concurrency must not change an answer.

import (
	"bufio"
	"context"
	"encoding/json"
	"fmt"
	"io"
	"net/http"
	"net/http/httptest"
	"sort"
	"strings"
	"sync"
	"time"

	"verif/harness/hk"

	mcp "trpc.group/trpc-go/trpc-mcp-go"
)

type censusReq struct {
	class string
	idRaw string // JSON text of the id
	body  string
}

func censusRequests(n int) []censusReq {
	var out []censusReq
	mk := func(k int, class, rest string) {
		id := fmt.Sprint(5000 + k)
		if k%2 == 1 {
			id = fmt.Sprintf(`"s-%d"`, k)
		}
		out = append(out, censusReq{class, id, fmt.Sprintf(`{"jsonrpc":"2.0","id":%s,%s}`, id, rest)})
	}
	call := func(name, args string) string {
		return fmt.Sprintf(`"method":"tools/call","params":{"name":%q,"arguments":%s}`, name, args)
	}
	k := 0
	for round := 0; round < n; round++ {
		for _, cl := range []string{"no-params", "params-number", "params-string", "no-name", "empty-name", "unknown-tool", "unknown-prompt", "unknown-resource", "unknown-method",
			"handler-goerr", "handler-iserror", "result-nan", "result-inf", "result-chan", "result-nil", "result-nilslices", "ok"} {
			tok := fmt.Sprintf("t%d", k)
			switch cl {
			case "no-params":
				mk(k, cl, `"method":"tools/call"`)
			case "params-number":
				mk(k, cl, `"method":"tools/call","params":5`)
			case "params-string":
				mk(k, cl, `"method":"tools/call","params":"x"`)
			case "no-name":
				mk(k, cl, `"method":"tools/call","params":{"arguments":{}}`)
			case "empty-name":
				mk(k, cl, call("", `{}`))
			case "unknown-tool":
				mk(k, cl, call("nope-"+tok, `{}`))
			case "unknown-prompt":
				mk(k, cl, fmt.Sprintf(`"method":"prompts/get","params":{"name":"nope-%s"}`, tok))
			case "unknown-resource":
				mk(k, cl, fmt.Sprintf(`"method":"resources/read","params":{"uri":"verif://nope-%s"}`, tok))
			case "unknown-method":
				mk(k, cl, fmt.Sprintf(`"method":"verif/unknown-%s"`, tok))
			case "ok":
				mk(k, cl, call("echo", fmt.Sprintf(`{"nonce":%q}`, tok)))
			default:
				kind := strings.TrimPrefix(strings.TrimPrefix(cl, "handler-"), "result-")
				mk(k, cl, call("outcome", fmt.Sprintf(`{"nonce":%q,"kind":%q}`, tok, kind)))
			}
			k++
		}
	}
	return out
}

// canonMsg: the message with its members in a canonical order.
func canonMsg(raw string) (id string, canon string, ok bool) {
	var m map[string]json.RawMessage
	if json.Unmarshal([]byte(raw), &m) != nil {
		return "", "", false
	}
	idr, has := m["id"]
	if !has {
		return "", "", false
	}
	if _, isReq := m["method"]; isReq {
		return "", "", false
	}
	var v interface{}
	json.Unmarshal([]byte(raw), &v)
	b, _ := json.Marshal(v)
	var idv interface{}
	json.Unmarshal(idr, &idv)
	ib, _ := json.Marshal(idv)
	return string(ib), string(b), true
}

// rawMode is one server mode with a raw peer: exchange sends the requests (all at once if concurrent) and returns the
// answers seen per id.
type rawMode struct {
	name     string
	exchange func(reqs []censusReq, concurrent bool) map[string][]string
	close    func()
}

func collectInto(mu *sync.Mutex, got map[string][]string, raw string) {
	if id, canon, ok := canonMsg(raw); ok {
		mu.Lock()
		got[id] = append(got[id], canon)
		mu.Unlock()
	}
}

func eachReq(reqs []censusReq, concurrent bool, f func(r censusReq)) {
	if !concurrent {
		for _, r := range reqs {
			f(r)
		}
		return
	}
	var wg sync.WaitGroup
	start := make(chan struct{})
	for _, r := range reqs {
		wg.Add(1)
		go func(r censusReq) {
			defer wg.Done()
			<-start
			f(r)
		}(r)
	}
	close(start)
	wg.Wait()
}

func waitAnswered(mu *sync.Mutex, got map[string][]string, want int) {
	deadline := time.Now().Add(callCeiling())
	for time.Now().Before(deadline) {
		mu.Lock()
		n := len(got)
		mu.Unlock()
		if n >= want {
			return
		}
		time.Sleep(time.Millisecond)
	}
	degraded.Store(true)
}

func newRawMode(name string) *rawMode {
	g := newGates()
	hc := &handlerCount{}
	switch {
	case strings.HasPrefix(name, "streamable"):
		mode := "stateful"
		if strings.HasSuffix(name, "stateless") {
			mode = "stateless"
		}
		f := hk.NewFixture(hk.SrvCfg{Mode: mode, Get: false, PostSSE: strings.Contains(name, "-sse-")})
		richRegister(f.S, g, hc)
		hdr := map[string]string{"Accept": "application/json, text/event-stream"}
		r := f.Post(hdr, initBody)
		if sid := r.Header.Get("Mcp-Session-Id"); sid != "" {
			hdr["Mcp-Session-Id"] = sid
		}
		f.Post(hdr, `{"jsonrpc":"2.0","method":"notifications/initialized"}`)
		return &rawMode{name: name, close: f.Close, exchange: func(reqs []censusReq, concurrent bool) map[string][]string {
			var mu sync.Mutex
			got := map[string][]string{}
			eachReq(reqs, concurrent, func(rq censusReq) {
				resp := f.Post(hdr, rq.body)
				texts := []string{string(resp.Body)}
				if strings.Contains(resp.Header.Get("Content-Type"), "text/event-stream") {
					texts = sseDatas(string(resp.Body))
				}
				for _, t := range texts {
					collectInto(&mu, got, t)
				}
			})
			return got
		}}
	case name == "legacy-sse":
		srv := mcp.NewSSEServer("verif-sse", "1.0", mcp.WithSSEServerLogger(hk.QuietLogger{}), mcp.WithKeepAlive(false))
		richRegister(srv, g, hc)
		ts := httptest.NewUnstartedServer(srv)
		ts.Config.ErrorLog = hk.QuietStdLog()
		ts.Start()
		f := &hk.Fixture{URL: ts.URL + srv.SSEPath(), HC: &http.Client{Transport: &http.Transport{MaxIdleConnsPerHost: 128}}, TS: ts}
		_, _, st, err := f.OpenStream(nil)
		if err != nil || st == nil {
			ts.Close()
			return nil
		}
		evs := st.WaitEvents(1, ceiling)
		endpoint := ""
		if len(evs) > 0 {
			endpoint = evs[0].Data
			if strings.HasPrefix(endpoint, "/") {
				endpoint = ts.URL + endpoint
			}
		}
		post := func(body string) {
			f.Do("POST", endpoint, map[string]string{"Content-Type": "application/json"}, []byte(body))
		}
		post(initBody)
		post(`{"jsonrpc":"2.0","method":"notifications/initialized"}`)
		st.WaitEvents(2, ceiling)
		base := len(st.Snapshot())
		return &rawMode{name: name, close: func() { st.CloseByClient(); f.HC.CloseIdleConnections(); ts.CloseClientConnections(); ts.Close() },
			exchange: func(reqs []censusReq, concurrent bool) map[string][]string {
				eachReq(reqs, concurrent, func(rq censusReq) { post(rq.body) })
				var mu sync.Mutex
				snapshot := func() map[string][]string {
					got := map[string][]string{}
					all := st.Snapshot()
					for _, e := range all[base:] {
						collectInto(&mu, got, e.Data)
					}
					return got
				}
				deadline := time.Now().Add(callCeiling())
				for time.Now().Before(deadline) && len(snapshot()) < len(reqs) {
					time.Sleep(time.Millisecond)
				}
				got := snapshot()
				if len(got) < len(reqs) {
					degraded.Store(true)
				}
				base = len(st.Snapshot())
				return got
			}}
	case name == "stdio":
		srv := mcp.NewStdioServer("verif-stdio", "1.0", mcp.WithStdioServerLogger(hk.QuietLogger{}))
		richRegister(srv, g, hc)
		pr, pw := io.Pipe()
		or, ow := io.Pipe()
		ctx, cancel := context.WithCancel(context.Background())
		go func() { mcp.VerifServeStdio(ctx, srv, pr, ow); ow.Close() }()
		var mu sync.Mutex
		got := map[string][]string{}
		go func() {
			br := bufio.NewReaderSize(or, 1<<20)
			for {
				l, err := br.ReadString('\n')
				if strings.TrimSpace(l) != "" {
					collectInto(&mu, got, strings.TrimSpace(l))
				}
				if err != nil {
					return
				}
			}
		}()
		pw.Write([]byte(initBody + "\n"))
		pw.Write([]byte(`{"jsonrpc":"2.0","method":"notifications/initialized"}` + "\n"))
		waitAnswered(&mu, got, 1)
		return &rawMode{name: name, close: func() { cancel(); pw.Close(); ow.Close() }, exchange: func(reqs []censusReq, concurrent bool) map[string][]string {
			mu.Lock()
			for k := range got {
				delete(got, k)
			}
			mu.Unlock()
			eachReq(reqs, concurrent, func(rq censusReq) { pw.Write([]byte(rq.body + "\n")) })
			waitAnswered(&mu, got, len(reqs))
			mu.Lock()
			defer mu.Unlock()
			out := map[string][]string{}
			for k, v := range got {
				out[k] = append([]string{}, v...)
			}
			return out
		}}
	}
	return nil
}

var rawModeNames = []string{"streamable-json-stateful", "streamable-json-stateless", "streamable-sse-stateful", "streamable-sse-stateless", "legacy-sse", "stdio"}

func runErrorCensus(c *hk.Ctx) {
	rounds := 6
	if c.Thorough() {
		rounds = 20
	}
	reqs := censusRequests(rounds)
	for _, name := range rawModeNames {
		ref := newRawMode(name)
		if ref == nil {
			continue
		}
		reference := ref.exchange(reqs, false)
		ref.close()
		conc := newRawMode(name)
		if conc == nil {
			continue
		}
		got := conc.exchange(reqs, true)
		conc.close()
		byID := map[string]censusReq{}
		for _, r := range reqs {
			var v interface{}
			json.Unmarshal([]byte(r.idRaw), &v)
			b, _ := json.Marshal(v)
			byID[string(b)] = r
		}
		var ids []string
		for id := range byID {
			ids = append(ids, id)
		}
		sort.Strings(ids)
		for _, id := range ids {
			rq := byID[id]
			c.Count("census-"+name+"-"+id, true, nil, "census-"+name, "census-class-"+rq.class)
			if len(reference[id]) != 1 {
				c.Violate(hk.Violation{Fingerprint: "pending:census:not-exactly-one-answer:" + name + ":" + rq.class,
					What:     "a request sent on its own was not answered exactly once with its id although the connection stayed up",
					Input:    map[string]any{"mode": name, "class": rq.class, "request": rq.body},
					Observed: map[string]any{"answers_with_its_id": len(reference[id]), "answers": clipAll(reference[id])}, Expected: 1})
				continue
			}
			if len(got[id]) != 1 {
				c.Violate(hk.Violation{Fingerprint: "pending:census:concurrent-not-exactly-one-answer:" + name,
					What:     "requests sent at the same time: one of them was not answered exactly once with its own id (the multiset of answered ids differs from the multiset of request ids)",
					Input:    map[string]any{"mode": name, "class": rq.class, "request": rq.body, "requests_in_flight": len(reqs)},
					Observed: map[string]any{"answers_with_its_id": len(got[id]), "answers": clipAll(got[id])}, Expected: clip(reference[id][0])})
				continue
			}
			if got[id][0] != reference[id][0] {
				c.Violate(hk.Violation{Fingerprint: "pending:census:concurrent-answer-differs:" + name,
					What:     "requests sent at the same time: a request's answer is not the one this very request gets when it is sent on its own",
					Input:    map[string]any{"mode": name, "class": rq.class, "request": rq.body, "requests_in_flight": len(reqs)},
					Observed: clip(got[id][0]), Expected: clip(reference[id][0])})
			}
		}
		for id, as := range got {
			if _, ok := byID[id]; !ok {
				c.Violate(hk.Violation{Fingerprint: "pending:census:answer-with-foreign-id:" + name, What: "an answer carries an id no request had",
					Input: map[string]any{"mode": name}, Observed: map[string]any{"id": id, "answers": clipAll(as)}})
				break
			}
		}
	}
}

func clipAll(xs []string) []string {
	var out []string
	for _, x := range xs {
		out = append(out, clip(x))
	}
	return out
}
