package main

// Further real-client scenarios of part (ii):
//   sizes  — an answer-size ladder (1 KiB … 2 MiB) on every transport and framing: the call must return its own answer,
//            every byte of it;
//   prompt — the answer reaches the client's reader before the sender of the request has resumed (stdio: an in-process peer
//            answers inside the Write of the request; legacy SSE: the peer writes the answer on the stream before it answers
//            the POST): the call must still get it;
//   kill   — the peer takes the request (the handler runs) and kills the connection before the HTTP answer reaches the
//            client, no retry configured: the request must have been put on the wire once, the handler must not run twice,
//            the call must end with an error or its own answer.

import (
	"bytes"
	"context"
	"encoding/json"
	"fmt"
	"io"
	"net/http"
	"net/http/httptest"
	"os"
	"strconv"
	"strings"
	"sync"
	"time"

	"verif/harness/hk"

	mcp "trpc.group/trpc-go/trpc-mcp-go"
)

// kit is one real client connected to one real server.
type kit struct {
	transport string
	call      caller
	setID     func(int64)
	idOf      func(string) (string, bool)
	counts    func() (map[string]int, bool) // per-nonce handler count; complete = authoritative for every nonce
	posts     func() map[string]int         // peer-side number of requests seen per raw id (nil: not observed)
	left      func() int
	close     func()
}

func callEcho(cl interface {
	CallTool(ctx context.Context, req *mcp.CallToolRequest) (*mcp.CallToolResult, error)
}) caller {
	return func(ctx context.Context, nonce string) (*mcp.CallToolResult, error) {
		return cl.CallTool(ctx, &mcp.CallToolRequest{Params: mcp.CallToolParams{Name: "echo", Arguments: map[string]interface{}{"nonce": nonce}}})
	}
}

// postCount counts tools/call POSTs per raw id (peer side).
type postCount struct {
	mu sync.Mutex
	n  map[string]int
}

func (p *postCount) hit(id string) {
	p.mu.Lock()
	if p.n == nil {
		p.n = map[string]int{}
	}
	p.n[id]++
	p.mu.Unlock()
}

func (p *postCount) snapshot() map[string]int {
	p.mu.Lock()
	defer p.mu.Unlock()
	out := map[string]int{}
	for k, v := range p.n {
		out[k] = v
	}
	return out
}

// killing wraps a server handler: a tools/call whose nonce carries the class "kill" is handed to the real handler with a
// throw-away response writer (the server takes the request, the tool handler runs), then the client's connection is closed
// without a byte of HTTP answer.
func killing(pc *postCount, h http.Handler) http.Handler {
	return http.HandlerFunc(func(rw http.ResponseWriter, r *http.Request) {
		if r.Method != http.MethodPost {
			h.ServeHTTP(rw, r)
			return
		}
		b, _ := io.ReadAll(r.Body)
		r.Body.Close()
		r.Body = io.NopCloser(bytes.NewReader(b))
		var m rpcMsg
		if json.Unmarshal(b, &m) == nil && m.Method == "tools/call" {
			pc.hit(string(m.ID))
			if strings.Contains(m.Params.Arguments.Nonce, "~kill") {
				h.ServeHTTP(httptest.NewRecorder(), r)
				if hj, ok := rw.(http.Hijacker); ok {
					if conn, _, err := hj.Hijack(); err == nil {
						conn.Close()
						return
					}
				}
				panic(http.ErrAbortHandler)
			}
		}
		h.ServeHTTP(rw, r)
	})
}

func newStreamKit(c *hk.Ctx, transport string, stateless bool) *kit {
	mode := "stateful"
	if stateless {
		mode = "stateless"
	}
	cfg := hk.SrvCfg{Mode: mode, Get: false, PostSSE: transport == "stream-sse"}
	srv := mcp.NewServer("verif-server", "1.0", cfg.Opts()...)
	hc := &handlerCount{}
	tool, h := echoTool(hc)
	srv.RegisterTool(tool, h)
	wl := newWireLog()
	pc := &postCount{}
	ts := httptest.NewUnstartedServer(killing(pc, recording(wl, srv.Handler())))
	ts.Config.ErrorLog = hk.QuietStdLog()
	ts.Start()
	cl, err := mcp.NewClient(ts.URL+"/mcp", mcp.Implementation{Name: "verif-client", Version: "1"}, mcp.WithClientLogger(hk.QuietLogger{}), mcp.WithClientGetSSEEnabled(false))
	if err == nil {
		ictx, icancel := context.WithTimeout(context.Background(), callCeiling())
		_, err = cl.Initialize(ictx, &mcp.InitializeRequest{})
		icancel()
	}
	if err != nil {
		degraded.Store(true)
		c.Violate(hk.Violation{Fingerprint: "pending:harness:initialize:" + transport, What: err.Error()})
		ts.Close()
		return nil
	}
	return &kit{transport: transport, call: callEcho(cl), setID: func(n int64) { mcp.VerifSetRequestID(cl, n) }, idOf: wl.get,
		counts: func() (map[string]int, bool) { hc.mu.Lock(); defer hc.mu.Unlock(); return copyCounts(hc.n), true },
		posts:  pc.snapshot, left: func() int { return mcp.VerifPendingClientRequests(cl) },
		close: func() { cl.Close(); ts.CloseClientConnections(); ts.Close() }}
}

func copyCounts(m map[string]int) map[string]int {
	out := map[string]int{}
	for k, v := range m {
		out[k] = v
	}
	return out
}

func newLegacyKit(c *hk.Ctx) *kit {
	srv := mcp.NewSSEServer("verif-sse", "1.0", mcp.WithSSEServerLogger(hk.QuietLogger{}), mcp.WithKeepAlive(false))
	hc := &handlerCount{}
	tool, h := echoTool(hc)
	srv.RegisterTool(tool, h)
	wl := newWireLog()
	pc := &postCount{}
	ts := httptest.NewUnstartedServer(killing(pc, recording(wl, srv)))
	ts.Config.ErrorLog = hk.QuietStdLog()
	ts.Start()
	cl, err := mcp.NewSSEClient(ts.URL+srv.SSEPath(), mcp.Implementation{Name: "verif-client", Version: "1"}, mcp.WithClientLogger(hk.QuietLogger{}))
	if err == nil {
		ictx, icancel := context.WithTimeout(context.Background(), callCeiling())
		_, err = cl.Initialize(ictx, &mcp.InitializeRequest{})
		icancel()
	}
	if err != nil {
		degraded.Store(true)
		c.Violate(hk.Violation{Fingerprint: "pending:harness:initialize:legacy", What: err.Error()})
		ts.CloseClientConnections()
		ts.Close()
		return nil
	}
	return &kit{transport: "legacy", call: callEcho(cl), setID: func(n int64) { mcp.VerifSetRequestID(cl, n) }, idOf: wl.get,
		counts: func() (map[string]int, bool) { hc.mu.Lock(); defer hc.mu.Unlock(); return copyCounts(hc.n), true },
		posts:  pc.snapshot, left: func() int { return mcp.VerifPendingClientRequests(cl) },
		close: func() { cl.Close(); ts.CloseClientConnections(); ts.Close() }}
}

func newStdioKit(c *hk.Ctx, tag string) *kit {
	mapFile := fmt.Sprintf("%s/stdio-kit-%s.txt", c.Dir, tag)
	os.Remove(mapFile)
	sc, err := mcp.NewStdioClient(mcp.StdioTransportConfig{
		ServerParams: mcp.StdioServerParameters{Command: selfExe(), Env: map[string]string{childEnv: "real", childMapEnv: mapFile}},
		Timeout:      ceiling}, mcp.Implementation{Name: "verif-client", Version: "1"}, mcp.WithStdioLogger(hk.QuietLogger{}))
	if err == nil {
		ictx, icancel := context.WithTimeout(context.Background(), callCeiling())
		_, err = sc.Initialize(ictx, &mcp.InitializeRequest{})
		icancel()
		if err != nil {
			endStdioPeer(sc)
		}
	}
	if err != nil {
		degraded.Store(true)
		c.Violate(hk.Violation{Fingerprint: "pending:harness:initialize:stdio", What: err.Error()})
		return nil
	}
	var mu sync.Mutex
	counts := map[string]int{}
	call := func(ctx context.Context, nonce string) (*mcp.CallToolResult, error) {
		r, err := callEcho(sc)(ctx, nonce)
		if err == nil && r != nil {
			// the child reports "<answer>|id=<raw id>|n=<handler count>": strip the report, keep the answer
			t := textOf(r)
			parts := strings.Split(t, "|")
			if len(parts) == 3 {
				n, _ := strconv.Atoi(strings.TrimPrefix(parts[2], "n="))
				mu.Lock()
				counts[nonce] = n
				mu.Unlock()
				r = mcp.NewTextResult(parts[0])
			}
		}
		return r, err
	}
	return &kit{transport: "stdio", call: call, setID: func(n int64) { mcp.VerifSetStdioRequestID(sc, n) },
		idOf:   func(n string) (string, bool) { s, ok := readMap(mapFile)[n]; return s, ok },
		counts: func() (map[string]int, bool) { mu.Lock(); defer mu.Unlock(); return copyCounts(counts), false },
		left:   func() int { return mcp.VerifPendingClientRequests(sc) },
		close:  func() { endStdioPeer(sc) }}
}

func emitKit(c *hk.Ctx, k *kit, rc realCase, done map[string]string, tag string) {
	switch k.transport {
	case "stream-json", "stream-sse":
		emitPosts(c, rc, done)
	default:
		emitRun(c, rc, done, true)
	}
	c.Tag(tag + "-" + k.transport)
}

// ---------------------------------------------------------------- sizes

func runSizes(c *hk.Ctx) {
	sizes := []int{1 << 10, 70000, 300000, 2 << 20}
	if c.Thorough() {
		sizes = append(sizes, 65536-200, 65536, 65537, 8<<20)
	}
	kits := []func() *kit{
		func() *kit { return newStreamKit(c, "stream-json", false) },
		func() *kit { return newStreamKit(c, "stream-sse", false) },
		func() *kit { return newStreamKit(c, "stream-sse", true) },
		func() *kit { return newLegacyKit(c) },
		func() *kit { return newStdioKit(c, "sizes") },
	}
	for _, mk := range kits {
		k := mk()
		if k == nil {
			continue
		}
		start := int64(2000)
		k.setID(start)
		var nonces [][]string
		var mine []string
		for i, sz := range sizes {
			mine = append(mine, fmt.Sprintf("z%d-%04x~%d", i, c.Rng.Intn(1<<16), sz))
		}
		nonces = append(nonces, mine) // one caller, the sizes in turn: ids start+1 …
		var cancels sync.Map
		res := fire(k.call, nonces, &cancels)
		counts, complete := k.counts()
		rc := realCase{transport: k.transport, start: start, callers: 1, per: len(sizes)}
		done := judge(c, rc, res, k.idOf, counts, complete, k.left())
		for _, r := range res {
			if r.err != "" {
				c.Violate(hk.Violation{Fingerprint: "pending:large-answer-lost:" + k.transport, What: "a call whose answer is large got nothing although the handler ran once and the connection is up",
					Input: map[string]any{"transport": k.transport, "answer_bytes": len(expectText(r.nonce)), "nonce": clip(r.nonce)}, Observed: r.err, Expected: "the call returns its own answer, every byte of it"})
			}
		}
		emitKit(c, k, rc, done, "sizes")
		k.close()
	}
}

// ---------------------------------------------------------------- kill

func runKill(c *hk.Ctx) {
	kits := []func() *kit{
		func() *kit { return newStreamKit(c, "stream-json", false) },
		func() *kit { return newStreamKit(c, "stream-sse", false) },
		func() *kit { return newLegacyKit(c) },
	}
	for _, mk := range kits {
		k := mk()
		if k == nil {
			continue
		}
		k.setID(3000)
		var mine []string
		for i := 0; i < 3; i++ {
			mine = append(mine, fmt.Sprintf("k%d-%04x~kill", i, c.Rng.Intn(1<<16)), fmt.Sprintf("k%d-%04x-after", i, c.Rng.Intn(1<<16)))
		}
		var cancels sync.Map
		res := fire(k.call, [][]string{mine}, &cancels)
		counts, _ := k.counts()
		posts := k.posts()
		for _, r := range res {
			id, _ := k.idOf(r.nonce)
			killed := strings.HasSuffix(r.nonce, "~kill")
			c.Count("kill-"+k.transport+"-"+r.nonce, killed, map[string]any{"kind": "kill", "transport": k.transport, "nonce": r.nonce, "err": r.err, "handler_runs": counts[r.nonce], "posts": posts[id]}, "kill-"+k.transport)
			if posts[id] != 1 {
				c.Violate(hk.Violation{Fingerprint: "pending:request-sent-twice:" + k.transport,
					What:     "with no retry configured one call put its request on the wire more than once (the connection was closed after the server had taken the first copy)",
					Input:    map[string]any{"transport": k.transport, "request_id": id, "nonce": r.nonce, "fault": "connection closed by the peer after the request was handled, before any HTTP answer"},
					Observed: map[string]any{"requests_seen_by_the_peer": posts[id], "handler_runs": counts[r.nonce], "call_error": r.err}, Expected: "one request on the wire, the call fails (or returns its own answer)"})
			}
			if counts[r.nonce] > 1 {
				c.Violate(hk.Violation{Fingerprint: "pending:handler-count:" + k.transport, What: "the tool handler did not run exactly once for a request (no retry configured)",
					Input: map[string]any{"transport": k.transport, "nonce": r.nonce, "fault": "connection closed before the HTTP answer"}, Observed: counts[r.nonce], Expected: 1})
			}
			if r.err == "" && r.text != expectText(r.nonce) {
				c.Violate(hk.Violation{Fingerprint: "pending:foreign-answer:" + k.transport, What: "a call returned a result that was not computed from its own arguments",
					Input: map[string]any{"transport": k.transport, "nonce": r.nonce}, Observed: clip(r.text)})
			}
			if !killed && r.err != "" {
				c.Violate(hk.Violation{Fingerprint: "pending:no-answer-after-fault:" + k.transport, What: "a call issued after an earlier call's connection was killed got no answer although the server answered",
					Input: map[string]any{"transport": k.transport, "nonce": r.nonce}, Observed: r.err})
			}
		}
		if n := k.left(); n != 0 {
			c.Violate(hk.Violation{Fingerprint: "pending:table-not-empty:" + k.transport, What: "entries left in the client's pending table after every call returned", Observed: n})
		}
		k.close()
	}
	// stdio: the peer takes the requests and dies without answering
	{
		mapFile := fmt.Sprintf("%s/stdio-die.txt", c.Dir)
		os.Remove(mapFile)
		sj, _ := json.Marshal(script{K: 3, Die: true})
		sc, err := mcp.NewStdioClient(mcp.StdioTransportConfig{
			ServerParams: mcp.StdioServerParameters{Command: selfExe(), Env: map[string]string{childEnv: "script", childMapEnv: mapFile, childScriptEnv: string(sj)}},
			Timeout:      ceiling}, mcp.Implementation{Name: "verif-client", Version: "1"}, mcp.WithStdioLogger(hk.QuietLogger{}))
		if err != nil {
			return
		}
		defer endStdioPeer(sc)
		ictx, icancel := context.WithTimeout(context.Background(), callCeiling())
		_, err = sc.Initialize(ictx, &mcp.InitializeRequest{})
		icancel()
		if err != nil {
			degraded.Store(true)
			c.Violate(hk.Violation{Fingerprint: "pending:harness:initialize:stdio-die", What: err.Error()})
			return
		}
		var cancels sync.Map
		res := fire(callEcho(sc), mkNonces(c, "d", 3, 1), &cancels)
		lines := map[string]int{}
		if b, err := os.ReadFile(mapFile); err == nil {
			for _, l := range strings.Split(string(b), "\n") {
				if i := strings.IndexByte(l, ' '); i > 0 {
					lines[l[:i]]++
				}
			}
		}
		for _, r := range res {
			c.Count("kill-stdio-"+r.nonce, true, map[string]any{"kind": "kill", "transport": "stdio", "err": r.err, "request_lines": lines[r.nonce]}, "kill-stdio")
			if lines[r.nonce] != 1 {
				c.Violate(hk.Violation{Fingerprint: "pending:request-sent-twice:stdio", What: "one call wrote its request more than once (or not at all) although no retry is configured",
					Input: map[string]any{"nonce": r.nonce}, Observed: lines[r.nonce], Expected: 1})
			}
			if r.err == "" {
				c.Violate(hk.Violation{Fingerprint: "pending:answer-from-nowhere:stdio", What: "a call returned a result although its peer died without answering", Input: r.nonce, Observed: clip(r.text)})
			}
		}
	}
}

// ---------------------------------------------------------------- prompt

// promptPeer is the server end of an in-process stdio connection: the answer to a request has been read and dispatched by
// the client's reader loop before the Write of the request returns to the caller.
type promptPeer struct {
	mu      sync.Mutex
	buf     bytes.Buffer
	out     *io.PipeWriter
	handled map[string]int
	idOf    map[string]string
	stray   bool // a line that is not JSON (what a server prints to stdout by mistake) precedes every answer
}

func (s *promptPeer) Write(p []byte) (int, error) {
	s.mu.Lock()
	defer s.mu.Unlock()
	s.buf.Write(p)
	for {
		data := s.buf.Bytes()
		idx := bytes.IndexByte(data, '\n')
		if idx < 0 {
			break
		}
		line := append([]byte(nil), data[:idx]...)
		s.buf.Next(idx + 1)
		var m rpcMsg
		if json.Unmarshal(line, &m) != nil || len(m.ID) == 0 || m.Method == "" {
			continue
		}
		var resp string
		switch m.Method {
		case "initialize":
			resp = initResult(m.ID, "2025-03-26")
		case "tools/call":
			n := m.Params.Arguments.Nonce
			s.handled[n]++
			s.idOf[n] = string(m.ID)
			resp = fmt.Sprintf(`{"jsonrpc":"2.0","id":%s,"result":{"content":[{"type":"text","text":%q}]}}`, string(m.ID), expectText(n))
		default:
			continue
		}
		// io.Pipe: the first write returns once the reader loop has taken the line; the empty line that follows is taken
		// only when the loop comes back for more, i.e. after it has dispatched the answer.
		if s.stray {
			if err := s.writeOut("Server listening (this line is not JSON) ...\n"); err != nil {
				return 0, err
			}
		}
		if err := s.writeOut(resp + "\n"); err != nil {
			return 0, err
		}
		if err := s.writeOut("\n"); err != nil {
			return 0, err
		}
	}
	return len(p), nil
}

// writeOut writes to the client's stdout; a client whose reader has stopped reading would block the pipe for ever: after two
// seconds the pipe is closed instead.
func (s *promptPeer) writeOut(str string) error {
	done := make(chan error, 1)
	go func() { _, err := io.WriteString(s.out, str); done <- err }()
	select {
	case err := <-done:
		return err
	case <-time.After(2 * time.Second):
		s.out.CloseWithError(fmt.Errorf("the client stopped reading its server's stdout"))
		return <-done
	}
}

func (s *promptPeer) Close() error { return s.out.Close() }

func runPrompt(c *hk.Ctx) {
	// ---- stdio, in process
	{
		outR, outW := io.Pipe()
		peer := &promptPeer{out: outW, handled: map[string]int{}, idOf: map[string]string{}}
		sc, err := mcp.VerifNewStdioClientOnPipes(mcp.Implementation{Name: "verif-client", Version: "1"}, 2*time.Second, peer, outR, mcp.WithStdioLogger(hk.QuietLogger{}))
		if err != nil {
			c.Violate(hk.Violation{Fingerprint: "pending:harness:new-stdio-client", What: err.Error()})
			return
		}
		ictx, icancel := context.WithTimeout(context.Background(), callCeiling())
		_, err = sc.Initialize(ictx, &mcp.InitializeRequest{})
		icancel()
		if err != nil {
			c.Violate(hk.Violation{Fingerprint: "pending:no-answer:stdio-prompt", What: "the stdio client's Initialize got no answer from a peer that answers before the write of the request returns", Observed: err.Error()})
		} else {
			start := int64(100)
			mcp.VerifSetStdioRequestID(sc, start)
			n := 5
			var cancels sync.Map
			res := fire(callEcho(sc), [][]string{mkNonces(c, "q", 1, n)[0]}, &cancels)
			done := map[string]string{}
			var evs []any
			for i, r := range res {
				id := start + 1 + int64(i)
				raw := strconv.FormatInt(id, 10)
				evs = append(evs, map[string]any{"e": "issue"}, map[string]any{"e": "answer", "c": id}, map[string]any{"e": "deliver", "i": 0},
					map[string]any{"e": "register", "c": id}, map[string]any{"e": "finish", "c": id})
				peer.mu.Lock()
				handled := peer.handled[r.nonce]
				peer.mu.Unlock()
				switch {
				case r.err != "":
					done[raw] = "error"
					c.Violate(hk.Violation{Fingerprint: "pending:no-answer:stdio-prompt",
						What:     "a stdio call got nothing although the server answered it once and the connection is up: the answer was read and dispatched by the reader loop before the caller had registered its pending entry",
						Input:    map[string]any{"peer": "in-process; the answer is on the client's stdout and dispatched before the write of the request returns", "request_id": id, "nonce": r.nonce},
						Observed: map[string]any{"error": r.err, "handled_by_peer": handled}, Expected: expectText(r.nonce)})
				case r.text == expectText(r.nonce):
					done[raw] = "answer:" + raw
				default:
					done[raw] = "answer:?"
					c.Violate(hk.Violation{Fingerprint: "pending:foreign-answer:stdio-prompt", What: "a call returned a result that was not computed from its own arguments", Input: r.nonce, Observed: clip(r.text)})
				}
				if handled != 1 {
					c.Violate(hk.Violation{Fingerprint: "pending:request-sent-twice:stdio-prompt", What: "the peer saw a request not exactly once", Input: r.nonce, Observed: handled})
				}
			}
			c.Emit(map[string]any{"c": "pending.run", "kind": "int64", "start": start, "evs": evs}, map[string]any{"done": done, "pending": []int{}, "disabled": nil}, true, "prompt-stdio")
			// a few concurrent callers on the same connection
			res2 := fire(callEcho(sc), mkNonces(c, "qq", 4, 2), &cancels)
			for _, r := range res2 {
				c.Count("prompt-conc-"+r.nonce, true, nil, "prompt-stdio-concurrent")
				if r.err != "" || r.text != expectText(r.nonce) {
					c.Violate(hk.Violation{Fingerprint: "pending:no-answer:stdio-prompt",
						What:  "a stdio call got nothing (or not its own answer) although the server answered it once and the connection is up",
						Input: map[string]any{"peer": "in-process prompt peer, 4 concurrent callers", "nonce": r.nonce}, Observed: map[string]any{"error": r.err, "text": clip(r.text)}})
				}
			}
		}
		go sc.Close()
		outW.Close()
	}
	// ---- legacy SSE: the answer is on the stream before the POST is answered
	{
		wl := newWireLog()
		type fr struct {
			data string
			ack  chan struct{}
		}
		frames := make(chan fr, 64)
		mux := http.NewServeMux()
		mux.HandleFunc("/sse", func(w http.ResponseWriter, r *http.Request) {
			fl := w.(http.Flusher)
			w.Header().Set("Content-Type", "text/event-stream")
			w.WriteHeader(200)
			fmt.Fprint(w, "event: endpoint\ndata: /message?sessionId=prompt\n\n")
			fl.Flush()
			for {
				select {
				case f := <-frames:
					fmt.Fprintf(w, "event: message\ndata: %s\n\n", f.data)
					fl.Flush()
					close(f.ack)
				case <-r.Context().Done():
					return
				}
			}
		})
		mux.HandleFunc("/message", func(w http.ResponseWriter, r *http.Request) {
			b, _ := io.ReadAll(r.Body)
			m, ok := wl.note(b)
			if ok && (m.Method == "initialize" || m.Method == "tools/call") {
				data := initResult(m.ID, "2024-11-05")
				if m.Method == "tools/call" {
					data = fmt.Sprintf(`{"jsonrpc":"2.0","id":%s,"result":{"content":[{"type":"text","text":%q}]}}`, string(m.ID), expectText(m.Params.Arguments.Nonce))
				}
				f := fr{data, make(chan struct{})}
				frames <- f
				<-f.ack
				// the answer is flushed; give the client's reader a moment to dispatch it before the POST is answered
				// (widens the window only: the verdict does not depend on it)
				time.Sleep(20 * time.Millisecond)
			}
			w.WriteHeader(http.StatusAccepted)
		})
		ts := httptest.NewUnstartedServer(mux)
		ts.Config.ErrorLog = hk.QuietStdLog()
		ts.Start()
		cl, err := mcp.NewSSEClient(ts.URL+"/sse", mcp.Implementation{Name: "verif-client", Version: "1"}, mcp.WithClientLogger(hk.QuietLogger{}))
		if err == nil {
			ictx, icancel := context.WithTimeout(context.Background(), callCeiling())
			_, err = cl.Initialize(ictx, &mcp.InitializeRequest{})
			icancel()
		}
		if err != nil {
			c.Violate(hk.Violation{Fingerprint: "pending:no-answer:legacy-prompt", What: "the legacy SSE client's Initialize got no answer from a peer that answers on the stream before it answers the POST", Observed: err.Error()})
		} else {
			start := int64(200)
			mcp.VerifSetRequestID(cl, start)
			var cancels sync.Map
			res := fire(callEcho(cl), [][]string{mkNonces(c, "lp", 1, 4)[0]}, &cancels)
			done := map[string]string{}
			var evs []any
			for i, r := range res {
				id := start + 1 + int64(i)
				raw := strconv.FormatInt(id, 10)
				evs = append(evs, map[string]any{"e": "issue"}, map[string]any{"e": "answer", "c": id}, map[string]any{"e": "deliver", "i": 0},
					map[string]any{"e": "register", "c": id}, map[string]any{"e": "finish", "c": id})
				if r.err != "" || r.text != expectText(r.nonce) {
					done[raw] = "error"
					c.Violate(hk.Violation{Fingerprint: "pending:no-answer:legacy-prompt",
						What:  "a legacy SSE call got nothing (or not its own answer) although the server answered it once on the stream — before it answered the POST — and the connection is up",
						Input: map[string]any{"request_id": id, "nonce": r.nonce}, Observed: map[string]any{"error": r.err, "text": clip(r.text)}, Expected: expectText(r.nonce)})
				} else {
					done[raw] = "answer:" + raw
				}
			}
			c.Emit(map[string]any{"c": "pending.run", "kind": keyKindOf("legacy"), "start": start, "evs": evs}, map[string]any{"done": done, "pending": []int{}, "disabled": nil}, true, "prompt-legacy")
			cl.Close()
		}
		ts.CloseClientConnections()
		ts.Close()
	}
}

// runStray: the server's stdout carries a line that is not JSON before an answer (a log line printed by mistake): the stdio
// client must skip it and the call must complete with its own answer — and so must the calls after it.
func runStray(c *hk.Ctx) {
	outR, outW := io.Pipe()
	peer := &promptPeer{out: outW, handled: map[string]int{}, idOf: map[string]string{}, stray: true}
	sc, err := mcp.VerifNewStdioClientOnPipes(mcp.Implementation{Name: "verif-client", Version: "1"}, 2*time.Second, peer, outR, mcp.WithStdioLogger(hk.QuietLogger{}))
	if err != nil {
		return
	}
	defer func() { go sc.Close(); outW.Close() }()
	ictx, icancel := context.WithTimeout(context.Background(), callCeiling())
	_, err = sc.Initialize(ictx, &mcp.InitializeRequest{})
	icancel()
	if err != nil {
		c.Violate(hk.Violation{Fingerprint: "pending:no-answer:stdio-stray-line",
			What:  "a stdio call got nothing although the server answered it and the connection is up: a line that is not JSON preceded the answer on the server's stdout",
			Input: map[string]any{"call": "initialize", "stdout": []string{"Server listening (this line is not JSON) ...", "<the answer>"}}, Observed: err.Error()})
		return
	}
	var cancels sync.Map
	res := fire(callEcho(sc), [][]string{mkNonces(c, "st", 1, 4)[0]}, &cancels)
	for i, r := range res {
		c.Count("stray-"+r.nonce, true, nil, "stray-stdio")
		if r.err != "" || r.text != expectText(r.nonce) {
			c.Violate(hk.Violation{Fingerprint: "pending:no-answer:stdio-stray-line",
				What:     "a stdio call got nothing (or not its own answer) although the server answered it once and the connection is up: a line that is not JSON preceded the answer on the server's stdout",
				Input:    map[string]any{"call_no": i + 1, "nonce": r.nonce, "stdout": []string{"Server listening (this line is not JSON) ...", "<the answer>"}},
				Observed: map[string]any{"error": r.err, "text": clip(r.text)}, Expected: expectText(r.nonce)})
			break
		}
	}
}
