package main

// This binary re-executed as the peer of a StdioClient:
//   real:   a real mcp.NewStdioServer with the echo tool; stdin is teed so that the tool handler can report the raw request
//           id of the request that carried its nonce and the per-nonce handler count;
//   script: a scripted reference peer: answers initialize, collects K tools/call requests, then writes the scripted frames.

import (
	"bufio"
	"context"
	"encoding/json"
	"fmt"
	"io"
	"os"
	"os/signal"
	"strings"
	"sync"
	"time"

	"verif/harness/hk"

	mcp "trpc.group/trpc-go/trpc-mcp-go"
)

const (
	childEnv       = "VERIF_PENDING_CHILD"
	childMapEnv    = "VERIF_PENDING_MAP"
	childScriptEnv = "VERIF_PENDING_SCRIPT"
)

func selfExe() string {
	p, err := os.Executable()
	if err != nil {
		return os.Args[0]
	}
	return p
}

func childMain(mode string) {
	signal.Ignore(os.Interrupt)
	switch mode {
	case "real":
		childReal()
	default:
		childScript()
	}
}

// teeLines forwards stdin line by line and notes (nonce -> raw id) of every tools/call before the server sees the line.
type teeLines struct {
	mu   sync.Mutex
	idOf map[string]string
	mapF *os.File
}

func (t *teeLines) note(line []byte) {
	var m rpcMsg
	if json.Unmarshal(line, &m) == nil && m.Method == "tools/call" && m.Params.Arguments.Nonce != "" {
		t.mu.Lock()
		t.idOf[m.Params.Arguments.Nonce] = string(m.ID)
		if t.mapF != nil {
			fmt.Fprintf(t.mapF, "%s %s\n", m.Params.Arguments.Nonce, string(m.ID))
		}
		t.mu.Unlock()
	}
}

func childReal() {
	tee := &teeLines{idOf: map[string]string{}}
	if p := os.Getenv(childMapEnv); p != "" {
		tee.mapF, _ = os.OpenFile(p, os.O_APPEND|os.O_CREATE|os.O_WRONLY, 0o644)
	}
	s := mcp.NewStdioServer("verif-stdio", "1.0", mcp.WithStdioServerLogger(hk.QuietLogger{}))
	var mu sync.Mutex
	counts := map[string]int{}
	s.RegisterTool(mcp.NewTool("echo", mcp.WithString("nonce")), func(ctx context.Context, req *mcp.CallToolRequest) (*mcp.CallToolResult, error) {
		n, _ := req.Params.Arguments["nonce"].(string)
		mu.Lock()
		counts[n]++
		k := counts[n]
		mu.Unlock()
		tee.mu.Lock()
		id := tee.idOf[n]
		tee.mu.Unlock()
		return mcp.NewTextResult(fmt.Sprintf("%s|id=%s|n=%d", expectText(n), id, k)), nil
	})
	pr, pw := io.Pipe()
	go func() {
		in := bufio.NewReaderSize(os.Stdin, 1<<20)
		for {
			line, err := in.ReadBytes('\n')
			if len(line) > 0 {
				tee.note(line)
				pw.Write(line)
			}
			if err != nil {
				pw.Close()
				return
			}
		}
	}()
	_ = mcp.VerifServeStdio(context.Background(), s, pr, os.Stdout)
}

// scriptFrame is one frame the scripted peer writes: the raw JSON text of its id and the body marker.
type scriptFrame struct {
	ID   string `json:"id"`   // raw JSON text of the id
	Body int64  `json:"body"` // result text is "body:<n>"
}

type script struct {
	K       int           `json:"k"`
	Frames  []scriptFrame `json:"frames"`
	Frames2 []scriptFrame `json:"frames2"` // written once GoFile exists
	GoFile  string        `json:"gofile"`
	Die     bool          `json:"die"` // after K requests the peer exits without answering
}

func frameJSON(f scriptFrame) string {
	return fmt.Sprintf(`{"jsonrpc":"2.0","id":%s,"result":{"content":[{"type":"text","text":"body:%d"}]}}`, f.ID, f.Body)
}

func initResult(id json.RawMessage, version string) string {
	return fmt.Sprintf(`{"jsonrpc":"2.0","id":%s,"result":{"protocolVersion":%q,"capabilities":{"tools":{}},"serverInfo":{"name":"scripted-peer","version":"1"}}}`, string(id), version)
}

func childScript() {
	var sc script
	_ = json.Unmarshal([]byte(os.Getenv(childScriptEnv)), &sc)
	mapF, _ := os.OpenFile(os.Getenv(childMapEnv), os.O_APPEND|os.O_CREATE|os.O_WRONLY, 0o644)
	in := bufio.NewReaderSize(os.Stdin, 1<<20)
	out := bufio.NewWriter(os.Stdout)
	got := 0
	for {
		line, err := in.ReadBytes('\n')
		if len(strings.TrimSpace(string(line))) > 0 {
			var m rpcMsg
			if json.Unmarshal(line, &m) == nil {
				switch {
				case m.Method == "initialize":
					out.WriteString(initResult(m.ID, "2025-03-26") + "\n")
					out.Flush()
				case m.Method == "tools/call":
					fmt.Fprintf(mapF, "%s %s\n", m.Params.Arguments.Nonce, string(m.ID))
					got++
					if got == sc.K && sc.Die {
						mapF.Sync()
						os.Exit(0)
					}
					if got == sc.K {
						mapF.Sync()
						for _, f := range sc.Frames {
							out.WriteString(frameJSON(f) + "\n")
						}
						out.Flush()
						if len(sc.Frames2) > 0 {
							go func() {
								deadline := time.Now().Add(30 * time.Second)
								for time.Now().Before(deadline) {
									if _, err := os.Stat(sc.GoFile); err == nil {
										break
									}
									time.Sleep(time.Millisecond)
								}
								for _, f := range sc.Frames2 {
									out.WriteString(frameJSON(f) + "\n")
								}
								out.Flush()
							}()
						}
					}
				}
			}
		}
		if err != nil {
			return
		}
	}
}

// readMap reads a "nonce rawid" file written by a child.
func readMap(path string) map[string]string {
	out := map[string]string{}
	b, err := os.ReadFile(path)
	if err != nil {
		return out
	}
	for _, l := range strings.Split(string(b), "\n") {
		if i := strings.IndexByte(l, ' '); i > 0 {
			out[l[:i]] = l[i+1:]
		}
	}
	return out
}
