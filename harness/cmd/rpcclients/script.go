package main

// The script every peer follows: the answer is chosen by the request itself (method + a key carried in the parameters:
// tool / prompt name, resource uri, list cursor, clientInfo.name of initialize), so the Streamable peer (JSON and SSE
// answers), the legacy-SSE peer and the stdio child give the SAME answer to the same call.

import (
	"encoding/json"
	"fmt"
	"strings"

	"verif/harness/rpckit"
)

type scase struct {
	Label  string
	Method string
	Key    string
	Result string // JSON text of the result member ("" = an error answer)
	Error  string // JSON text of the error member
	Large  int    // > 0: "@LARGE@" inside Result stands for a text of that many bytes
	// outside the statement (an answer Go cannot decode: the transports fail in their own ways): differences are counted
	Outside bool
}

// number literals at the float64 edge: 2^53 and its neighbours, the int64 edge, exponent / fraction spellings of
// integers, minus zero, decimals longer than a float64 holds
var edgeNumbers = []string{"9007199254740993", "9007199254740992", "9007199254740991", "-9007199254740993", "9223372036854775807", "9223372036854775808",
	"-9223372036854775808", "1e3", "12.0", "-0", "0.1000000000000000055511151231257827", "1.5", "123456789012345678901234567890", "1E2", "2.50", "1e21", "18446744073709551615"}

// numberCases: each literal in every numeric position the typed results have.
func numberCases(thorough bool) []scase {
	var cs []scase
	lits := edgeNumbers
	for i, n := range lits {
		k := fmt.Sprintf("num-%d", i)
		add := func(method, pos, result string) {
			cs = append(cs, scase{Label: method + ":" + pos + ":" + n, Method: method, Key: pos + "-" + k, Result: result})
		}
		add("resources/list", "size", `{"resources":[{"name":"r","uri":"verif://r","size":`+n+`},{"name":"s","uri":"verif://s","size":7}],"_meta":{"total":`+n+`}}`)
		add("tools/call", "structured", `{"content":[],"structuredContent":{"n":`+n+`,"a":[`+n+`,{"deep":`+n+`}]},"_meta":{"progress":`+n+`,"progressToken":`+n+`}}`)
		add("tools/call", "priority", `{"content":[{"type":"text","text":"x","annotations":{"audience":["user"],"priority":`+n+`}}]}`)
		add("tools/list", "schema", `{"tools":[{"name":"a","inputSchema":{"type":"object","properties":{"x":{"type":"number","minimum":`+n+`,"maximum":`+n+`,"default":`+n+`,"enum":[`+n+`]}}}}]}`)
		add("prompts/get", "meta", `{"messages":[],"_meta":{"n":`+n+`}}`)
		add("resources/read", "meta", `{"contents":[{"uri":"verif://r","text":"t"}],"_meta":{"n":`+n+`}}`)
		if thorough || i%4 == 0 {
			add("initialize", "experimental", `{"protocolVersion":"2025-03-26","capabilities":{"experimental":{"x":{"n":`+n+`}}},"serverInfo":{"name":"fake","version":"0.1"},"_meta":{"n":`+n+`}}`)
			add("tools/list", "maxLength", `{"tools":[{"name":"a","inputSchema":{"type":"object","properties":{"x":{"type":"string","maxLength":`+n+`,"minItems":`+n+`}}}}]}`)
		}
	}
	if thorough {
		// a number no float64 can hold: every transport fails, each in its own way (stdio by its timeout)
		cs = append(cs, scase{Label: "tools/call:structured:1e400", Method: "tools/call", Key: "structured-overflow", Outside: true,
			Result: `{"content":[],"structuredContent":{"n":1e400}}`})
	}
	return cs
}

const largeMark = "@LARGE@"

func largeText(n int) string {
	unit := "abcdefghijklmnopqrstuvwxyz 0123456789 é中\U0001F600 <&> | "
	s := strings.Repeat(unit, n/len(unit)+1)
	// cut at a rune boundary
	for n > 0 && n < len(s) && s[n]&0xC0 == 0x80 {
		n--
	}
	return s[:n]
}

func (c scase) resultText() string {
	if c.Large == 0 {
		return c.Result
	}
	q, _ := json.Marshal(largeText(c.Large))
	return strings.ReplaceAll(c.Result, `"`+largeMark+`"`, string(q))
}

var rpcErrors = []struct {
	l, e string
}{
	{"parse", `{"code":-32700,"message":"Parse error"}`},
	{"invalid-request", `{"code":-32600,"message":"Invalid Request"}`},
	{"method-not-found", `{"code":-32601,"message":"method not found"}`},
	{"invalid-params", `{"code":-32602,"message":"missing required parameters"}`},
	{"internal", `{"code":-32603,"message":"tool execution failed (tool: x): kaboom <&> \"q\""}`},
	{"server-defined", `{"code":-32000,"message":"scripted refusal","data":{"detail":[1,"x",null]}}`},
	{"positive-code", `{"code":7,"message":""}`},
}

const initOK = `{"protocolVersion":"2025-03-26","capabilities":{"tools":{"listChanged":true},"prompts":{"listChanged":true},"resources":{"listChanged":true}},"serverInfo":{"name":"fake","version":"0.1"},"instructions":"MCP server is ready"}`

func buildCases(thorough bool) []scase {
	var cs []scase
	add := func(method, label, result string) {
		cs = append(cs, scase{Label: method + ":" + label, Method: method, Key: label, Result: result})
	}
	// tools/call
	add("tools/call", "text", `{"content":[{"type":"text","text":"hello\nworld <&> é"}]}`)
	add("tools/call", "rich", `{"content":[{"type":"image","data":"aGk=","mimeType":"image/png"},{"type":"audio","data":"AAAA","mimeType":"audio/wav"},{"type":"text","text":"","annotations":{"audience":["user","assistant"],"priority":0.5}},{"type":"resource","resource":{"uri":"verif://e","mimeType":"text/plain","text":"t"}},{"type":"resource","resource":{"uri":"verif://b","blob":"AAEC"}}]}`)
	add("tools/call", "is-error", `{"content":[{"type":"text","text":"it failed"}],"isError":true}`)
	add("tools/call", "structured", `{"content":[],"structuredContent":{"a":[1,2.5,"x",null,true],"b":{},"n":-7},"_meta":{"k":1}}`)
	add("tools/call", "empty-content", `{"content":[]}`)
	add("tools/call", "null-content", `{"content":null}`)
	add("tools/call", "no-content", `{"isError":false}`)
	add("tools/call", "result-null", `null`)
	add("tools/call", "result-empty", `{}`)
	add("tools/call", "error-member-inside-result", `{"content":[],"error":"x"}`)
	sizes := []int{70 << 10, 300 << 10}
	if thorough {
		sizes = append(sizes, 1<<20, 65500, 65536, 66000)
	}
	for _, n := range sizes {
		cs = append(cs, scase{Label: fmt.Sprintf("tools/call:large-%d", n), Method: "tools/call", Key: fmt.Sprintf("large-%d", n), Large: n,
			Result: `{"content":[{"type":"text","text":"` + largeMark + `"}]}`})
	}
	// tools/list
	add("tools/list", "two", `{"tools":[{"name":"a","description":"first","inputSchema":{"type":"object","properties":{"x":{"type":"string","description":"an x"}},"required":["x"]}},{"name":"b","inputSchema":{"type":"object"},"annotations":{"title":"B","readOnlyHint":true}}]}`)
	add("tools/list", "none", `{"tools":[]}`)
	add("tools/list", "cursor", `{"tools":[{"name":"a","inputSchema":{"type":"object"}}],"nextCursor":"next"}`)
	add("tools/list", "result-null", `null`)
	add("tools/list", "result-empty", `{}`)
	cs = append(cs, scase{Label: "tools/list:large", Method: "tools/list", Key: "large", Large: 90 << 10,
		Result: `{"tools":[{"name":"big","description":"` + largeMark + `","inputSchema":{"type":"object"}}]}`})
	// prompts
	add("prompts/list", "two", `{"prompts":[{"name":"p","description":"d","arguments":[{"name":"a","description":"first","required":true},{"name":"b"}]},{"name":"q"}]}`)
	add("prompts/list", "none", `{"prompts":[]}`)
	add("prompts/list", "result-null", `null`)
	add("prompts/list", "result-empty", `{}`)
	add("prompts/get", "two-messages", `{"description":"a description","messages":[{"role":"user","content":{"type":"text","text":"question"}},{"role":"assistant","content":{"type":"image","data":"aGk=","mimeType":"image/png"}}]}`)
	add("prompts/get", "no-messages", `{"messages":[]}`)
	add("prompts/get", "result-null", `null`)
	add("prompts/get", "result-empty", `{}`)
	cs = append(cs, scase{Label: "prompts/get:large", Method: "prompts/get", Key: "large", Large: 128 << 10,
		Result: `{"messages":[{"role":"user","content":{"type":"text","text":"` + largeMark + `"}}]}`})
	// resources
	add("resources/list", "two", `{"resources":[{"name":"r","uri":"verif://r","description":"d","mimeType":"text/plain","size":5},{"name":"s","uri":"verif://s"}]}`)
	add("resources/list", "none", `{"resources":[]}`)
	add("resources/list", "result-null", `null`)
	add("resources/list", "result-empty", `{}`)
	add("resources/read", "text-and-blob", `{"contents":[{"uri":"verif://r","mimeType":"text/plain","text":"hello"},{"uri":"verif://r#b","mimeType":"application/octet-stream","blob":"AAEC"}]}`)
	add("resources/read", "none", `{"contents":[]}`)
	add("resources/read", "result-null", `null`)
	add("resources/read", "result-empty", `{}`)
	cs = append(cs, scase{Label: "resources/read:large", Method: "resources/read", Key: "large", Large: 200 << 10,
		Result: `{"contents":[{"uri":"verif://big","text":"` + largeMark + `"}]}`})
	// initialize
	add("initialize", "full", initOK)
	add("initialize", "old-version", `{"protocolVersion":"2024-11-05","capabilities":{},"serverInfo":{"name":"fake","version":"0"}}`)
	add("initialize", "experimental", `{"protocolVersion":"2025-03-26","capabilities":{"experimental":{"x":{"y":[1,2]}},"logging":{}},"serverInfo":{"name":"é","version":""},"_meta":{"m":true}}`)
	add("initialize", "result-empty", `{}`)
	add("initialize", "result-null", `null`)
	cs = append(cs, numberCases(thorough)...)
	cs = append(cs, stringCases()...)
	cs = append(cs, envelopeNameCases()...)
	// JSON-RPC errors, each code, on every method
	for _, m := range []string{"tools/call", "tools/list", "prompts/list", "prompts/get", "resources/list", "resources/read", "initialize"} {
		for _, e := range rpcErrors {
			if m != "tools/call" && m != "initialize" && !thorough && e.l != "invalid-params" && e.l != "server-defined" {
				continue
			}
			cs = append(cs, scase{Label: m + ":error-" + e.l, Method: m, Key: "error-" + e.l, Error: e.e})
		}
	}
	return cs
}

var caseIndex map[string]*scase

func indexCases(cs []scase) {
	caseIndex = map[string]*scase{}
	for i := range cs {
		caseIndex[cs[i].Method+"\x00"+cs[i].Key] = &cs[i]
	}
}

type rpcIn struct {
	ID     json.RawMessage `json:"id"`
	Method string          `json:"method"`
	Params struct {
		Cursor     string `json:"cursor"`
		Name       string `json:"name"`
		URI        string `json:"uri"`
		ClientInfo struct {
			Name string `json:"name"`
		} `json:"clientInfo"`
	} `json:"params"`
}

func (in rpcIn) key() string {
	switch in.Method {
	case "initialize":
		return in.Params.ClientInfo.Name
	case "resources/read":
		return in.Params.URI
	case "tools/call", "prompts/get":
		return in.Params.Name
	}
	return in.Params.Cursor
}

// answerFor: the one answer every peer gives to this request (nil: a notification or an answer of the client).
func answerFor(raw []byte) []byte {
	var in rpcIn
	if json.Unmarshal(raw, &in) != nil || len(in.ID) == 0 || in.Method == "" {
		return nil
	}
	c := caseIndex[in.Method+"\x00"+in.key()]
	switch {
	case c == nil && in.Method == "initialize":
		return []byte(fmt.Sprintf(`{"jsonrpc":"2.0","id":%s,"result":%s}`, in.ID, initOK))
	case c == nil:
		return []byte(fmt.Sprintf(`{"jsonrpc":"2.0","id":%s,"error":{"code":-32601,"message":"no such case: %s"}}`, in.ID, in.Method))
	case c.Error != "":
		return []byte(fmt.Sprintf(`{"jsonrpc":"2.0","id":%s,"error":%s}`, in.ID, c.Error))
	}
	return []byte(fmt.Sprintf(`{"jsonrpc":"2.0","id":%s,"result":%s}`, in.ID, c.resultText()))
}

// the rich string classes (rpckit.CtlText: every C0 control, DEL, C1, U+2028/9, bytes that are not UTF-8, non-printable
// astral runes, quotes, backslashes, ANSI sequences; rpckit.PrintfText: printf material ending in a lone %) in every
// string position of the results and in error messages
func stringCases() []scase {
	q := func(s string) string { b, _ := json.Marshal(s); return string(b) }
	var cs []scase
	for _, x := range []struct{ l, s string }{{"ctl", rpckit.CtlText}, {"printf", rpckit.PrintfText}, {"percent", "100%"}, {"both", rpckit.PrintfText + rpckit.CtlText + "%"}} {
		t := q(x.s)
		add := func(method, pos, result string) {
			cs = append(cs, scase{Label: method + ":" + pos + ":" + x.l, Method: method, Key: pos + "-str-" + x.l, Result: result})
		}
		add("tools/call", "text", `{"content":[{"type":"text","text":`+t+`},{"type":"resource","resource":{"uri":`+t+`,"mimeType":`+t+`,"text":`+t+`}}],"structuredContent":{`+t+`:[`+t+`]},"_meta":{"k":`+t+`}}`)
		add("tools/call", "is-error", `{"content":[{"type":"text","text":`+t+`}],"isError":true}`)
		add("tools/list", "descriptors", `{"tools":[{"name":`+t+`,"description":`+t+`,"inputSchema":{"type":"object","properties":{"x":{"type":"string","description":`+t+`,"default":`+t+`,"enum":[`+t+`]}}},"annotations":{"title":`+t+`}}],"nextCursor":`+t+`}`)
		add("prompts/list", "descriptors", `{"prompts":[{"name":`+t+`,"description":`+t+`,"arguments":[{"name":`+t+`,"description":`+t+`}]}]}`)
		add("prompts/get", "messages", `{"description":`+t+`,"messages":[{"role":"user","content":{"type":"text","text":`+t+`}}]}`)
		add("resources/list", "descriptors", `{"resources":[{"name":`+t+`,"uri":`+t+`,"description":`+t+`,"mimeType":`+t+`}]}`)
		add("resources/read", "contents", `{"contents":[{"uri":`+t+`,"mimeType":`+t+`,"text":`+t+`}]}`)
		add("initialize", "info", `{"protocolVersion":"2025-03-26","capabilities":{"experimental":{`+t+`:{"k":`+t+`}}},"serverInfo":{"name":`+t+`,"version":`+t+`},"instructions":`+t+`}`)
		for _, m := range []string{"tools/call", "tools/list", "prompts/get", "resources/read", "initialize"} {
			cs = append(cs, scase{Label: m + ":error-text:" + x.l, Method: m, Key: "error-str-" + x.l, Error: `{"code":-32603,"message":` + t + `,"data":{"detail":` + t + `}}`})
		}
	}
	return cs
}

// results whose NESTED members bear the names of the JSON-RPC envelope — method, id, result, error, jsonrpc, params — in
// structured content, in input schemas (properties and their defaults), in prompt arguments, in _meta, in experimental
// capabilities, as texts: a client that classifies a message by looking for `"method":` anywhere in it takes such an
// answer for a request of the server
func envelopeNameCases() []scase {
	var cs []scase
	add := func(method, pos, result string) {
		cs = append(cs, scase{Label: method + ":envelope-names:" + pos, Method: method, Key: "env-" + pos, Result: result})
	}
	nested := `{"method":"GET","id":7,"result":{"ok":true},"error":null,"jsonrpc":"2.0","params":{"method":"tools/call","id":"x"}}`
	add("tools/call", "structured", `{"content":[{"type":"text","text":"{\"method\":\"ping\",\"id\":1}"}],"structuredContent":`+nested+`,"_meta":`+nested+`}`)
	add("tools/call", "structured-method-only", `{"content":[],"structuredContent":{"method":"GET"}}`)
	add("tools/call", "structured-id-only", `{"content":[],"structuredContent":{"id":1}}`)
	add("tools/call", "structured-error-only", `{"content":[],"structuredContent":{"error":{"code":1,"message":"nested"}}}`)
	add("tools/call", "structured-result-only", `{"content":[],"structuredContent":{"result":{}}}`)
	add("tools/call", "embedded-resource-text", `{"content":[{"type":"resource","resource":{"uri":"verif://m","text":"\"method\": \"x\", \"id\": 1"}}]}`)
	add("tools/list", "schema-properties", `{"tools":[{"name":"http","description":"\"method\":","inputSchema":{"type":"object","properties":{"method":{"type":"string","default":"GET","enum":["GET","POST"]},"id":{"type":"integer"},"result":{"type":"object","properties":{"error":{"type":"string"}}},"jsonrpc":{"type":"string"}},"required":["method","id"]},"annotations":{"title":"method"}}]}`)
	add("prompts/list", "argument-names", `{"prompts":[{"name":"method","description":"id","arguments":[{"name":"method","required":true},{"name":"id"},{"name":"result"},{"name":"error"}]}]}`)
	add("prompts/get", "meta", `{"messages":[{"role":"user","content":{"type":"text","text":"method"}}],"_meta":`+nested+`}`)
	add("resources/list", "names", `{"resources":[{"name":"method","uri":"verif://method","description":"id"}],"_meta":{"method":"x"}}`)
	add("resources/read", "meta", `{"contents":[{"uri":"verif://id","text":"result"}],"_meta":{"id":5,"method":"m"}}`)
	add("initialize", "experimental", `{"protocolVersion":"2025-03-26","capabilities":{"experimental":{"rpc":`+nested+`}},"serverInfo":{"name":"method","version":"id"},"_meta":{"method":"initialize"}}`)
	for _, m := range []string{"tools/call", "tools/list", "initialize"} {
		cs = append(cs, scase{Label: m + ":envelope-names:error-data", Method: m, Key: "env-error-data", Error: `{"code":-32000,"message":"\"method\": nested","data":` + nested + `}`})
	}
	return cs
}
