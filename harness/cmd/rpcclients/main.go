// Component "rpcclients" (C14, second sentence): the library's three real clients — mcp.NewClient against a Streamable peer
// answering with a JSON body and against one answering the POST with an SSE stream, mcp.NewSSEClient against a legacy-SSE
// peer, mcp.NewStdioClient against this binary re-executed as a stdio peer — are given the SAME server answers (chosen by
// the request itself, see script.go); the values their APIs return are compared pairwise, and each is compared with the
// Lean model of the client's answer extraction (Mcp.RpcClient).
package main

import (
	"bufio"
	"bytes"
	"context"
	"encoding/json"
	"fmt"
	"io"
	"net/http"
	"net/http/httptest"
	"os"
	"os/signal"
	"reflect"
	"regexp"
	"strconv"
	"strings"
	"sync"
	"syscall"
	"time"

	mcp "trpc.group/trpc-go/trpc-mcp-go"
	"verif/harness/hk"
)

const childEnv = "VERIF_RPCCLIENTS_CHILD"

func main() {
	if tier := os.Getenv(childEnv); tier != "" {
		childMain(tier)
		return
	}
	hk.Main(&hk.Component{Name: "rpcclients", Rule: "the three real clients (Streamable with JSON answers, Streamable with POST-SSE answers, legacy SSE, stdio against a re-executed child) receive the same scripted server answer for every result kind of initialize, tools/list, tools/call (text, image, audio, embedded resource, isError, structured, _meta, empty / null / missing content, 70 KiB - 1 MiB texts, numbers at the float64 / int64 edge in every numeric position, control characters / non-UTF-8 bytes / printf material in every string position and in error messages), prompts/list, prompts/get, resources/list, resources/read, for result null / {} and for JSON-RPC errors of every standard code; the returned values (as Go values and as Go prints their typed fields; nothing is normalised through float64) or error class + code + message must be pairwise equal, and each equals the model's; non-trivial = a value or a JSON-RPC error was returned (ping has no client API)",
		Run: run})
}

// ---------------------------------------------------------------------------------------------------------------------
// peers

func childMain(tier string) {
	signal.Ignore(os.Interrupt)
	indexCases(buildCases(tier == "thorough"))
	in := bufio.NewReaderSize(os.Stdin, 1<<20)
	out := bufio.NewWriterSize(os.Stdout, 1<<20)
	for {
		line, err := in.ReadBytes('\n')
		if len(bytes.TrimSpace(line)) > 0 {
			if a := answerFor(line); a != nil {
				out.Write(a)
				out.WriteByte('\n')
				out.Flush()
			}
		}
		if err != nil {
			return
		}
	}
}

// Streamable peer: sseAnswers = the POST is answered as an SSE stream carrying the answer in one event.
func newStreamablePeer(sseAnswers bool) *httptest.Server {
	h := http.HandlerFunc(func(w http.ResponseWriter, r *http.Request) {
		switch r.Method {
		case http.MethodPost:
			b, _ := io.ReadAll(r.Body)
			a := answerFor(b)
			if a == nil {
				w.WriteHeader(http.StatusAccepted)
				return
			}
			w.Header().Set("Mcp-Session-Id", "fake-session-0123456789abcdef")
			if sseAnswers {
				w.Header().Set("Content-Type", "text/event-stream")
				w.WriteHeader(200)
				fmt.Fprintf(w, "id: evt-1\ndata: %s\n\n", a)
				return
			}
			w.Header().Set("Content-Type", "application/json")
			w.WriteHeader(200)
			w.Write(a)
		case http.MethodDelete:
			w.WriteHeader(200)
		default:
			w.Header().Set("Connection", "close")
			w.WriteHeader(http.StatusMethodNotAllowed)
		}
	})
	ts := httptest.NewUnstartedServer(h)
	ts.Config.ErrorLog = hk.QuietStdLog()
	ts.Start()
	return ts
}

type sseHub struct {
	mu      sync.Mutex
	next    int
	streams map[string]chan []byte
}

func newLegacySSEPeer() *httptest.Server {
	f := &sseHub{streams: map[string]chan []byte{}}
	mux := http.NewServeMux()
	mux.HandleFunc("/sse", func(w http.ResponseWriter, r *http.Request) {
		fl, ok := w.(http.Flusher)
		if !ok || r.Method != http.MethodGet {
			w.WriteHeader(405)
			return
		}
		f.mu.Lock()
		f.next++
		id := fmt.Sprint(f.next)
		ch := make(chan []byte, 16)
		f.streams[id] = ch
		f.mu.Unlock()
		defer func() { f.mu.Lock(); delete(f.streams, id); f.mu.Unlock() }()
		w.Header().Set("Content-Type", "text/event-stream")
		w.Header().Set("Cache-Control", "no-cache")
		w.WriteHeader(200)
		fmt.Fprintf(w, "event: endpoint\ndata: /message?sid=%s\n\n", id)
		fl.Flush()
		for {
			select {
			case <-r.Context().Done():
				return
			case m := <-ch:
				fmt.Fprintf(w, "event: message\ndata: %s\n\n", m)
				fl.Flush()
			}
		}
	})
	mux.HandleFunc("/message", func(w http.ResponseWriter, r *http.Request) {
		b, _ := io.ReadAll(r.Body)
		f.mu.Lock()
		ch := f.streams[r.URL.Query().Get("sid")]
		f.mu.Unlock()
		if ch == nil {
			http.Error(w, "no stream", 404)
			return
		}
		if a := answerFor(b); a != nil {
			ch <- a
		}
		w.WriteHeader(http.StatusAccepted)
	})
	ts := httptest.NewUnstartedServer(mux)
	ts.Config.ErrorLog = hk.QuietStdLog()
	ts.Start()
	return ts
}

// ---------------------------------------------------------------------------------------------------------------------
// clients

type env struct {
	tier     string
	jsonPeer *httptest.Server
	ssePeer  *httptest.Server
	legacy   *httptest.Server
}

var clientKinds = []string{"streamable-json", "streamable-sse", "legacy-sse", "stdio"}

type client struct {
	kind string
	conn mcp.Connector
	sc   *mcp.StdioClient
}

func selfExe() string {
	p, err := os.Executable()
	if err != nil {
		return os.Args[0]
	}
	return p
}

func (e *env) newClient(kind, name string) (*client, error) {
	info := mcp.Implementation{Name: name, Version: "1"}
	c := &client{kind: kind}
	var err error
	switch kind {
	case "streamable-json", "streamable-sse":
		url := e.jsonPeer.URL
		if kind == "streamable-sse" {
			url = e.ssePeer.URL
		}
		var hc *mcp.Client
		hc, err = mcp.NewClient(url+"/mcp", info, mcp.WithClientLogger(hk.QuietLogger{}), mcp.WithClientGetSSEEnabled(false))
		c.conn = hc
	case "legacy-sse":
		var hc *mcp.Client
		hc, err = mcp.NewSSEClient(e.legacy.URL+"/sse", info, mcp.WithClientLogger(hk.QuietLogger{}))
		c.conn = hc
	case "stdio":
		c.sc, err = mcp.NewStdioClient(mcp.StdioTransportConfig{
			ServerParams: mcp.StdioServerParameters{Command: selfExe(), Env: map[string]string{childEnv: e.tier}},
			Timeout:      10 * time.Second}, info, mcp.WithStdioLogger(hk.QuietLogger{}))
		c.conn = c.sc
	}
	if err != nil {
		return nil, err
	}
	return c, nil
}

func (c *client) close() {
	if c == nil || c.conn == nil {
		return
	}
	if c.sc != nil {
		// StdioClient.Close can stall on its own Cmd.Wait: end the peer, the transport's watcher winds everything down
		if pid := c.sc.GetProcessID(); pid > 0 {
			syscall.Kill(pid, syscall.SIGKILL)
		}
		go c.sc.Close()
		return
	}
	c.conn.Close()
}

func initRequest(name string) *mcp.InitializeRequest {
	r := &mcp.InitializeRequest{}
	r.Params.ProtocolVersion = "2025-03-26"
	r.Params.ClientInfo = mcp.Implementation{Name: name, Version: "1"}
	return r
}

// call performs the client API call of the case's method with the case's key.
func (c *client) call(sc scase) (any, error) {
	ctx, cancel := context.WithTimeout(context.Background(), 20*time.Second)
	defer cancel()
	switch sc.Method {
	case "initialize":
		return c.conn.Initialize(ctx, initRequest(sc.Key))
	case "tools/call":
		return c.conn.CallTool(ctx, &mcp.CallToolRequest{Params: mcp.CallToolParams{Name: sc.Key, Arguments: map[string]any{"x": 1}}})
	case "tools/list":
		r := &mcp.ListToolsRequest{}
		r.Params.Cursor = mcp.Cursor(sc.Key)
		return c.conn.ListTools(ctx, r)
	case "prompts/list":
		r := &mcp.ListPromptsRequest{}
		r.Params.Cursor = mcp.Cursor(sc.Key)
		return c.conn.ListPrompts(ctx, r)
	case "prompts/get":
		r := &mcp.GetPromptRequest{}
		r.Params.Name = sc.Key
		return c.conn.GetPrompt(ctx, r)
	case "resources/list":
		r := &mcp.ListResourcesRequest{}
		r.Params.Cursor = mcp.Cursor(sc.Key)
		return c.conn.ListResources(ctx, r)
	case "resources/read":
		r := &mcp.ReadResourceRequest{}
		r.Params.URI = sc.Key
		return c.conn.ReadResource(ctx, r)
	}
	return nil, fmt.Errorf("no client API for %s", sc.Method)
}

// ---------------------------------------------------------------------------------------------------------------------
// what a call returned

type outcome struct {
	Kind    string // ok | rpc-error | decode-error | failed
	Code    int
	Message string
	Why     string
	Value   string // canonical JSON of the returned value (its numbers as Go prints the typed fields: nothing is rounded here)
	Err     string
	Typed   any            // the value itself
	Extra   map[string]any // numeric positions reported to the model
}

var rpcErrRe = regexp.MustCompile(`(?s)error: (.*) \(code: (-?\d+)\)$`)

func isNil(v any) bool {
	if v == nil {
		return true
	}
	switch x := v.(type) {
	case *mcp.InitializeResult:
		return x == nil
	case *mcp.CallToolResult:
		return x == nil
	case *mcp.ListToolsResult:
		return x == nil
	case *mcp.ListPromptsResult:
		return x == nil
	case *mcp.GetPromptResult:
		return x == nil
	case *mcp.ListResourcesResult:
		return x == nil
	case *mcp.ReadResourceResult:
		return x == nil
	}
	return false
}

func observe(v any, err error) outcome {
	if err != nil {
		s := err.Error()
		o := outcome{Err: s}
		if m := rpcErrRe.FindStringSubmatch(s); m != nil {
			o.Kind, o.Message = "rpc-error", m[1]
			o.Code, _ = strconv.Atoi(m[2])
			return o
		}
		low := strings.ToLower(s)
		switch {
		case strings.Contains(low, "failed to parse response"):
			o.Kind, o.Why = "failed", "undecodable" // ErrResponseParsing: the answer does not decode into Go values
		case strings.Contains(low, "missing result"):
			o.Kind, o.Why = "failed", "missing-result"
		case strings.Contains(low, "no final response"):
			o.Kind, o.Why = "failed", "no-final-response"
		case strings.Contains(low, "timeout") || strings.Contains(low, "deadline"):
			o.Kind, o.Why = "failed", "timeout"
		case strings.Contains(low, "request failed") || strings.Contains(low, "channel closed") || strings.Contains(low, "transport") ||
			strings.Contains(low, "initialization failed") || strings.Contains(low, "not initialized"):
			o.Kind, o.Why = "failed", "transport"
		default:
			o.Kind = "decode-error"
		}
		return o
	}
	if isNil(v) {
		return outcome{Kind: "failed", Why: "nil value without an error"}
	}
	b, merr := json.Marshal(v)
	if merr != nil {
		return outcome{Kind: "failed", Why: "value cannot be re-encoded: " + merr.Error()}
	}
	var g any
	d := json.NewDecoder(bytes.NewReader(b))
	d.UseNumber()
	d.Decode(&g)
	cb, _ := json.Marshal(g)
	o := outcome{Kind: "ok", Value: string(cb), Typed: v, Extra: map[string]any{}}
	rawOf := func(x any) any {
		if x == nil {
			return nil
		}
		b, err := json.Marshal(x)
		if err != nil {
			return nil
		}
		return json.RawMessage(b)
	}
	switch x := v.(type) {
	case *mcp.CallToolResult:
		// the untyped positions: the numbers are the float64 values the transport + decoder produced
		o.Extra["structured"] = rawOf(x.StructuredContent)
		if x.Meta != nil {
			o.Extra["meta"] = rawOf(x.Meta)
		} else {
			o.Extra["meta"] = nil
		}
	case *mcp.ListResourcesResult:
		sizes := []any{}
		for _, r := range x.Resources {
			sizes = append(sizes, r.Size)
		}
		o.Extra["sizes"] = sizes
	}
	return o
}

func (o outcome) model() map[string]any {
	switch o.Kind {
	case "rpc-error":
		return map[string]any{"kind": "rpc-error", "code": o.Code, "message": o.Message}
	case "failed":
		return map[string]any{"kind": "failed", "why": o.Why}
	}
	m := map[string]any{"kind": o.Kind}
	for k, v := range o.Extra {
		m[k] = v
	}
	return m
}

func (o outcome) brief() map[string]any {
	m := o.model()
	if o.Err != "" {
		m["error_text"] = clip(o.Err, 300)
	}
	if o.Kind == "ok" {
		m["value"] = clip(o.Value, 300)
		m["value_bytes"] = len(o.Value)
	}
	return m
}

func clip(s string, n int) string {
	if len(s) > n {
		return s[:n] + fmt.Sprintf("… (%d bytes)", len(s))
	}
	return s
}

// compare two outcomes: "" = equal
func differ(a, b outcome) string {
	switch {
	case a.Kind != b.Kind:
		return a.Kind + "-vs-" + b.Kind
	case a.Kind == "ok" && a.Value != b.Value:
		return "value-differs"
	case a.Kind == "ok" && !reflect.DeepEqual(a.Typed, b.Typed):
		return "typed-value-differs" // equal once printed as JSON, different as Go values
	case a.Kind == "rpc-error" && a.Code != b.Code:
		return "code-differs"
	case a.Kind == "rpc-error" && a.Message != b.Message:
		return "message-differs"
	case a.Kind == "failed" && a.Why != b.Why:
		return "failure-differs"
	}
	return ""
}

// ---------------------------------------------------------------------------------------------------------------------

// the answer as it is on the wire, for the model (large texts shortened: the model does not depend on sizes) — the TEXT is
// handed on, not a decoded value: decoding it here would round its numbers exactly as the code under test does
func modelAnswer(sc scase) any {
	small := sc
	if small.Large > 0 {
		small.Large = 24
	}
	if sc.Error != "" {
		return json.RawMessage(fmt.Sprintf(`{"jsonrpc":"2.0","id":1,"error":%s}`, sc.Error))
	}
	return json.RawMessage(fmt.Sprintf(`{"jsonrpc":"2.0","id":1,"result":%s}`, small.resultText()))
}

func run(c *hk.Ctx) {
	cases := buildCases(c.Thorough())
	indexCases(append([]scase{}, cases...)) // the peers' table; `cases` itself is shuffled below
	e := &env{tier: c.Tier, jsonPeer: newStreamablePeer(false), ssePeer: newStreamablePeer(true), legacy: newLegacySSEPeer()}
	defer e.jsonPeer.Close()
	defer e.ssePeer.Close()
	defer func() { e.legacy.CloseClientConnections(); e.legacy.Close() }()

	// one long-lived, initialised client per kind for everything but initialize
	live := map[string]*client{}
	fresh := func(kind string) *client {
		cl, err := e.newClient(kind, "verif-client")
		if err == nil {
			_, err = cl.call(scase{Method: "initialize", Key: "verif-client"})
		}
		if err != nil {
			c.Violate(hk.Violation{Fingerprint: "rpcclients:setup:" + kind, What: "the client cannot be created / initialised against its peer: " + err.Error(), Input: kind})
			return nil
		}
		return cl
	}
	for _, k := range clientKinds {
		live[k] = fresh(k)
	}
	defer func() {
		for _, cl := range live {
			cl.close()
		}
	}()
	c.Rng.Shuffle(len(cases), func(i, j int) { cases[i], cases[j] = cases[j], cases[i] })
	for _, sc := range cases {
		outs := map[string]outcome{}
		for _, k := range clientKinds {
			var o outcome
			if sc.Method == "initialize" {
				cl, err := e.newClient(k, sc.Key)
				if err != nil {
					o = outcome{Kind: "failed", Why: "transport", Err: err.Error()}
				} else {
					o = observe(cl.call(sc))
					cl.close()
				}
			} else {
				if live[k] == nil {
					live[k] = fresh(k)
				}
				if live[k] == nil {
					continue
				}
				o = observe(live[k].call(sc))
				if o.Kind == "failed" {
					// the transport may be gone for good: the next case gets a new client
					live[k].close()
					live[k] = nil
				}
			}
			outs[k] = o
			c.Emit(map[string]any{"c": "rpcclients.recv", "client": k, "method": sc.Method, "case": sc.Label, "answer": modelAnswer(sc)},
				o.model(), o.Kind == "ok" || o.Kind == "rpc-error", "client:"+k, "method:"+sc.Method, "kind:"+o.Kind)
		}
		ref, ok := outs[clientKinds[0]]
		if !ok {
			continue
		}
		for _, k := range clientKinds[1:] {
			o, ok := outs[k]
			if !ok {
				continue
			}
			if d := differ(ref, o); d != "" && sc.Outside {
				c.Count("outside:"+sc.Label+":"+k, true, map[string]any{"case": sc.Label, clientKinds[0]: ref.brief(), k: o.brief()}, "outside-the-statement-divergent")
			} else if d != "" {
				c.Violate(hk.Violation{Fingerprint: "rpcclients:" + sc.Method + ":" + d + ":" + clientKinds[0] + "-vs-" + k,
					What:     fmt.Sprintf("for the same server answer (%s) the %s client and the %s client return different values", sc.Label, clientKinds[0], k),
					Input:    map[string]any{"case": sc.Label, "method": sc.Method, "key": sc.Key, "answer_bytes": len(sc.resultText()) + len(sc.Error), "answer": clip(sc.resultText()+sc.Error, 300)},
					Observed: map[string]any{clientKinds[0]: ref.brief(), k: o.brief()},
					Expected: "equal values (as Go values and printed as JSON, numbers as the typed fields hold them) or the same error class, code and message"})
			}
		}
	}
	c.SetExtra("cases", len(cases))
}
