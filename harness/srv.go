package main

import (
	"bufio"
	"bytes"
	"context"
	"io"
	"net/http"
	"net/http/httptest"
	"strings"
	"sync"
	"time"

	mcp "trpc.group/trpc-go/trpc-mcp-go"
)

// quietLogger silences the library.
type quietLogger struct{}

func (quietLogger) Debug(args ...interface{})                 {}
func (quietLogger) Debugf(format string, args ...interface{}) {}
func (quietLogger) Info(args ...interface{})                  {}
func (quietLogger) Infof(format string, args ...interface{})  {}
func (quietLogger) Warn(args ...interface{})                  {}
func (quietLogger) Warnf(format string, args ...interface{})  {}
func (quietLogger) Error(args ...interface{})                 {}
func (quietLogger) Errorf(format string, args ...interface{}) {}
func (quietLogger) Fatal(args ...interface{})                 {}
func (quietLogger) Fatalf(format string, args ...interface{}) {}

func init() { mcp.SetDefaultLogger(quietLogger{}) }

type srvCfg struct {
	Mode    string // stateful | stateless | sessionsOff
	Get     bool
	PostSSE bool
}

func (c srvCfg) opts() []mcp.ServerOption {
	o := []mcp.ServerOption{mcp.WithServerLogger(quietLogger{}), mcp.WithServerPath("/mcp"), mcp.WithGetSSEEnabled(c.Get), mcp.WithPostSSEEnabled(c.PostSSE)}
	switch c.Mode {
	case "stateless":
		o = append(o, mcp.WithStatelessMode(true))
	case "sessionsOff":
		o = append(o, mcp.WithoutSession())
	}
	return o
}

type fixture struct {
	S   *mcp.Server
	TS  *httptest.Server
	URL string
	HC  *http.Client
}

func newFixture(c srvCfg, extra ...mcp.ServerOption) *fixture {
	s := mcp.NewServer("verif-server", "1.2.3", append(c.opts(), extra...)...)
	ts := httptest.NewUnstartedServer(s.Handler())
	ts.Config.ErrorLog = nil
	ts.Config.ErrorLog = quietStdLog()
	ts.Start()
	tr := &http.Transport{MaxIdleConnsPerHost: 64, DisableCompression: true}
	return &fixture{S: s, TS: ts, URL: ts.URL + "/mcp", HC: &http.Client{Transport: tr}}
}

func (f *fixture) Close() {
	f.HC.CloseIdleConnections()
	f.TS.CloseClientConnections()
	f.TS.Close()
}

type rawResp struct {
	Status int // 0 = connection aborted without an answer
	Header http.Header
	Body   []byte
	Err    error
}

func (f *fixture) do(method, url string, hdr map[string]string, body []byte) rawResp {
	var rd io.Reader
	if body != nil {
		rd = bytes.NewReader(body)
	}
	req, err := http.NewRequest(method, url, rd)
	if err != nil {
		return rawResp{Err: err}
	}
	for k, v := range hdr {
		req.Header.Set(k, v)
	}
	resp, err := f.HC.Do(req)
	if err != nil {
		return rawResp{Status: 0, Err: err}
	}
	defer resp.Body.Close()
	b, _ := io.ReadAll(resp.Body)
	return rawResp{Status: resp.StatusCode, Header: resp.Header, Body: b}
}

func (f *fixture) post(hdr map[string]string, body string) rawResp {
	h := map[string]string{"Content-Type": "application/json"}
	for k, v := range hdr {
		h[k] = v
	}
	return f.do("POST", f.URL, h, []byte(body))
}

// stream is a client-side listening (GET) stream.
type stream struct {
	resp   *http.Response
	cancel context.CancelFunc
	eof    chan struct{} // closed when the server ended the stream (or the read failed)
	mu     sync.Mutex
	events []sseEvent
	closedByUs bool
	notify chan struct{}
}

type sseEvent struct {
	ID   string
	Data string
}

// openStream performs the GET; returns status and (for 200) a stream whose events are collected in the background.
func (f *fixture) openStream(hdr map[string]string) (int, http.Header, *stream, error) {
	ctx, cancel := context.WithCancel(context.Background())
	req, _ := http.NewRequestWithContext(ctx, "GET", f.URL, nil)
	req.Header.Set("Accept", "text/event-stream")
	for k, v := range hdr {
		req.Header.Set(k, v)
	}
	resp, err := f.HC.Do(req)
	if err != nil {
		cancel()
		return 0, nil, nil, err
	}
	if resp.StatusCode != 200 {
		io.Copy(io.Discard, resp.Body)
		resp.Body.Close()
		cancel()
		return resp.StatusCode, resp.Header, nil, nil
	}
	st := &stream{resp: resp, cancel: cancel, eof: make(chan struct{}), notify: make(chan struct{}, 1024)}
	go st.readLoop()
	return 200, resp.Header, st, nil
}

// readLoop is a WHATWG-style SSE reader (reference reader, independent of the library's).
func (s *stream) readLoop() {
	defer close(s.eof)
	br := bufio.NewReaderSize(s.resp.Body, 1<<20)
	var id string
	var data []string
	hasData := false
	for {
		line, err := br.ReadString('\n')
		if err != nil {
			return
		}
		line = strings.TrimRight(line, "\n")
		line = strings.TrimSuffix(line, "\r")
		if line == "" {
			if hasData {
				s.mu.Lock()
				s.events = append(s.events, sseEvent{ID: id, Data: strings.Join(data, "\n")})
				s.mu.Unlock()
				select {
				case s.notify <- struct{}{}:
				default:
				}
			}
			data = nil
			hasData = false
			continue
		}
		if strings.HasPrefix(line, ":") {
			continue
		}
		field, val := line, ""
		if i := strings.Index(line, ":"); i >= 0 {
			field, val = line[:i], strings.TrimPrefix(line[i+1:], " ")
		}
		switch field {
		case "id":
			id = val
		case "data":
			data = append(data, val)
			hasData = true
		}
	}
}

func (s *stream) ended(wait time.Duration) bool {
	if wait <= 0 {
		select {
		case <-s.eof:
			return true
		default:
			return false
		}
	}
	select {
	case <-s.eof:
		return true
	case <-time.After(wait):
		return false
	}
}

func (s *stream) closeByClient() {
	s.mu.Lock()
	s.closedByUs = true
	s.mu.Unlock()
	s.cancel()
	s.resp.Body.Close()
}

func (s *stream) snapshot() []sseEvent {
	s.mu.Lock()
	defer s.mu.Unlock()
	return append([]sseEvent{}, s.events...)
}

// waitEvents waits until at least n events have arrived or the timeout passes.
func (s *stream) waitEvents(n int, timeout time.Duration) []sseEvent {
	deadline := time.After(timeout)
	for {
		ev := s.snapshot()
		if len(ev) >= n {
			return ev
		}
		select {
		case <-s.notify:
		case <-s.eof:
			return s.snapshot()
		case <-deadline:
			return s.snapshot()
		}
	}
}
