#!/bin/sh
# Build the verification framework from files on disk only (offline).
set -e
cd "$(dirname "$0")"
export GOFLAGS=-mod=mod GOPROXY=off GOSUMDB=off GOTOOLCHAIN=local
mkdir -p .work evidence replays extract/bin harness/bin
(cd extract && go build -o bin/extract .)
./extract/bin/extract -repo "${VERIF_REPO:-/repo}" -out lean/Mcp/Gen
DRVS=$(python3 checklib/mkmain.py | sed -n 's/^drivers: //p')
(cd lean && lake build Mcp $DRVS)
cp /repo/go.sum harness/go.sum
(cd harness && for d in cmd/*/; do n=$(basename $d); go build -tags verif -o bin/$n ./cmd/$n; done)
echo "setup ok"
