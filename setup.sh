#!/bin/sh
# Build the verification framework from files on disk only (offline).
set -e
cd "$(dirname "$0")"
export GOFLAGS=-mod=mod GOPROXY=off GOSUMDB=off GOTOOLCHAIN=local
mkdir -p .work evidence replays extract/bin harness/bin
(cd extract && go build -o bin/extract .)
./extract/bin/extract -repo "${VERIF_REPO:-/repo}" -out lean/Mcp/Gen
python3 checklib/mkmain.py >/dev/null
# build the proofs and drivers of the claimed properties (one target at a time: a broken one must not hide the others)
for t in $(python3 checklib/targets.py); do (cd lean && lake build $t) || echo "setup: lake target $t failed"; done
cp /repo/go.sum harness/go.sum
(cd harness && for n in $(python3 ../checklib/targets.py components); do go build -tags verif -o bin/$n ./cmd/$n || echo "setup: harness component $n failed"; done)
echo "setup ok"
